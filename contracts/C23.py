"""C23 Peripheral latency skips only permitted events."""
PL = 'bluetoe/link_layer/include/bluetoe/peripheral_latency.hpp'
CE = 'bluetoe/link_layer/include/bluetoe/connection_events.hpp'
CMH = 'bluetoe/link_layer/include/bluetoe/channel_map.hpp'
DTH = 'bluetoe/link_layer/include/bluetoe/delta_time.hpp'
CSB = r'class connection_state_base\b'
DIS = r'class disarmable_connection_state< std::true_type, State >'

FEATURES = ['listen_if_pending_transmit_data', 'listen_if_unacknowledged_data', 'listen_if_last_received_not_empty',
            'listen_if_last_transmitted_not_empty', 'listen_if_last_received_had_more_data', 'listen_always']
FEATURE_RULES = [(r'base\(\)\.template peripheral_latency_feature< peripheral_latency::%s >\(\)' % f, 'feature( F_%s )' % f, 1) for f in FEATURES[1:]] + \
                [(r'base\(\)\.template peripheral_latency_feature< peripheral_latency::listen_if_pending_transmit_data >\(\)', 'feature( F_listen_if_pending_transmit_data )', 1)]

EX = dict(
    maxch=dict(kind='expr', file=CMH, scope=r'class channel_map\b', locate=r'static constexpr unsigned max_number_of_data_channels\s*='),
    maxlat=dict(kind='expr', file=PL, locate=r'static constexpr auto\s+maximum_link_layer_peripheral_latency\s*='),
    ev_fields=dict(kind='fields', file=CE, scope=r'struct connection_event_events\b',
                   names=['unacknowledged_data', 'last_received_not_empty', 'last_transmitted_not_empty', 'last_received_had_more_data', 'pending_outgoing_data', 'error_occured']),
    dt_fields=dict(kind='fields', file=DTH, scope=r'class delta_time\b', names=['usec_']),
    fields=dict(kind='fields', file=PL, scope=CSB, names=['channel_index_', 'event_counter_', 'time_since_last_event_'],
                type_map={'delta_time': 'struct delta_time'}),
)
HEAD = r'''
#define channel_map_max_number_of_data_channels ({{maxch}})
#define maximum_link_layer_peripheral_latency ({{maxlat}})
struct delta_time { {{dt_fields}} };
struct connection_event_events { {{ev_fields}} };
struct pair_bool_u16 { bool first; uint16_t second; };
struct csb { {{fields}} };
enum { F_listen_if_pending_transmit_data, F_listen_if_unacknowledged_data, F_listen_if_last_received_not_empty,
       F_listen_if_last_transmitted_not_empty, F_listen_if_last_received_had_more_data, F_listen_always, F_COUNT };

/* delta_time arithmetic is abstract here (proved on the real operators in C22): multiplication is one uninterpreted
   function, so 'k intervals' means the same thing in the code and in the contract */
uint32_t __CPROVER_uninterpreted_umul(uint32_t, uint32_t);
#define UMUL(k, t) __CPROVER_uninterpreted_umul((uint32_t)(k), (t))
struct delta_time dt_mul(unsigned lhs, struct delta_time rhs)
__CPROVER_ensures(__CPROVER_return_value.usec_ == UMUL(lhs, rhs.usec_)) __CPROVER_assigns();
void dt_add_assign(struct delta_time* self, struct delta_time rhs)
__CPROVER_requires(__CPROVER_rw_ok(self, sizeof(*self)))
__CPROVER_ensures(self->usec_ == __CPROVER_old(self->usec_) + rhs.usec_) __CPROVER_assigns(self->usec_);
void dt_sub_assign(struct delta_time* self, struct delta_time rhs)
__CPROVER_requires(__CPROVER_rw_ok(self, sizeof(*self)))
__CPROVER_ensures(self->usec_ == __CPROVER_old(self->usec_) - rhs.usec_) __CPROVER_assigns(self->usec_);

/* configuration: the six listen options, any combination (symbolic, constant during a call) */
bool W_feat[F_COUNT];
bool feature(int f) __CPROVER_requires(f >= 0 && f < F_COUNT) __CPROVER_ensures(__CPROVER_return_value == W_feat[f]) __CPROVER_assigns();
int G_last_latency_arg; int G_last_latency_calls;
void disarmable_connection_state_last_latency(int l)
__CPROVER_requires(l > 0)     /* the library's own assert in the disarm-capable variant */
__CPROVER_ensures(G_last_latency_arg == l && G_last_latency_calls == __CPROVER_old(G_last_latency_calls) + 1)
__CPROVER_assigns(G_last_latency_arg, G_last_latency_calls);

unsigned W_index; uint16_t W_counter, W_latency, W_instant; uint32_t W_time, W_interval; bool W_pending; int W_count;
struct connection_event_events W_ev;
#define CSB_OK(self) (__CPROVER_is_fresh(self, sizeof(struct csb)) && (self)->channel_index_ < 37u && (self)->channel_index_ == W_index \
                      && (self)->event_counter_ == W_counter && (self)->time_since_last_event_.usec_ == W_time)
#define MUST_LISTEN ((W_feat[F_listen_if_unacknowledged_data] && W_ev.unacknowledged_data) || (W_feat[F_listen_if_last_received_not_empty] && W_ev.last_received_not_empty) \
   || (W_feat[F_listen_if_last_transmitted_not_empty] && W_ev.last_transmitted_not_empty) || (W_feat[F_listen_if_last_received_had_more_data] && W_ev.last_received_had_more_data) \
   || (W_feat[F_listen_if_pending_transmit_data] && W_ev.pending_outgoing_data) || W_feat[F_listen_always] || W_ev.error_occured)
#define SETUP struct csb* s; W_index = nondet_unsigned(); W_counter = nondet_u16(); W_latency = nondet_u16(); W_instant = nondet_u16(); W_time = nondet_u32(); \
  W_interval = nondet_u32(); W_pending = nondet_bool(); W_count = nondet_int(); for (int k = 0; k < F_COUNT; ++k) W_feat[k] = nondet_bool(); \
  W_ev.unacknowledged_data = nondet_bool(); W_ev.last_received_not_empty = nondet_bool(); W_ev.last_transmitted_not_empty = nondet_bool(); \
  W_ev.last_received_had_more_data = nondet_bool(); W_ev.pending_outgoing_data = nondet_bool(); W_ev.error_occured = nondet_bool(); \
  G_last_latency_calls = 0; BT_KNOWN_EXCLUDE()
'''
CH = (r'channel_map::max_number_of_data_channels', 'channel_map_max_number_of_data_channels', '+')

UNITS = [
    dict(name='plan_next',
         extracts=dict(EX,
             plan=dict(file=PL, scope=CSB, locate=r'void plan_next_connection_event\(\s*std::uint16_t\s+connection_peripheral_latency,\s*connection_event_events\s+last_event_events,\s*delta_time\s+connection_interval,\s*std::pair< bool, std::uint16_t >\s+pending_instance \)',
                       rules=FEATURE_RULES + [CH,
                              (r'self->time_since_last_event_ = connection_peripheral_latency \* connection_interval;', 'self->time_since_last_event_ = dt_mul( connection_peripheral_latency, connection_interval );', 1),
                              (r'base\(\)\.disarmable_connection_state_last_latency\(', 'disarmable_connection_state_last_latency(', 1)]),
             timeout=dict(file=PL, scope=CSB, locate=r'void plan_next_connection_event_after_timeout\(\s*delta_time\s+connection_interval \)',
                          rules=[CH, (r'self->time_since_last_event_ \+= connection_interval;', 'dt_add_assign( &self->time_since_last_event_, connection_interval );', 1)]),
             reset=dict(file=PL, scope=CSB, locate=r'void reset_connection_state\(\)',
                        rules=[(r'self->time_since_last_event_ = delta_time\(\);', 'self->time_since_last_event_ = (struct delta_time){ 0 };', 1),
                               (r'base\(\)\.disarmable_connection_state_last_latency\(', 'disarmable_connection_state_last_latency(', 1)]),
             move=dict(file=PL, scope=CSB, locate=r'void peripheral_latency_move_connection_event\( int count, delta_time connection_iterval \)',
                       rules=[CH, (r'self->time_since_last_event_ -= -count \* connection_iterval;', 'dt_sub_assign( &self->time_since_last_event_, dt_mul( -count, connection_iterval ) );', 1)]),
             getters=dict(kind='text', body='text', file=PL, scope=CSB, locate=r'unsigned\s+current_channel_index\(\) const\s*\{[^}]*\}\s*std::uint16_t connection_event_counter\(\) const\s*\{[^}]*\}',
                          rules=[(r'unsigned\s+current_channel_index\(\) const', 'unsigned current_channel_index(const struct csb* self)', 1),
                                 (r'uint16_t connection_event_counter\(\) const', 'uint16_t connection_event_counter(const struct csb* self)', 1)]),
         ),
         code=HEAD + r'''
/* k := number of connection events the state moves forward */
#define K ((uint16_t)(self->event_counter_ - W_counter))
#define INSTANT_DIST ((uint16_t)(W_instant - W_counter))
void plan_next_connection_event(struct csb* self, uint16_t connection_peripheral_latency, struct connection_event_events last_event_events,
                                struct delta_time connection_interval, struct pair_bool_u16 pending_instance)
__CPROVER_requires(CSB_OK(self) && connection_peripheral_latency <= 499 && connection_peripheral_latency == W_latency && connection_interval.usec_ == W_interval)
__CPROVER_requires(last_event_events.unacknowledged_data == W_ev.unacknowledged_data && last_event_events.last_received_not_empty == W_ev.last_received_not_empty
  && last_event_events.last_transmitted_not_empty == W_ev.last_transmitted_not_empty && last_event_events.last_received_had_more_data == W_ev.last_received_had_more_data
  && last_event_events.pending_outgoing_data == W_ev.pending_outgoing_data && last_event_events.error_occured == W_ev.error_occured)
__CPROVER_requires(pending_instance.first == W_pending && pending_instance.second == W_instant)
/* never more than latency + 1 events ahead, at least one */
__CPROVER_ensures(K >= 1 && K <= W_latency + 1)
/* a configured listen condition (or an error) held: listen at the very next event */
__CPROVER_ensures(MUST_LISTEN ==> K == 1)
/* latency is used in full unless a listen condition or a pending instant forbids it */
__CPROVER_ensures((!MUST_LISTEN && !(W_pending && INSTANT_DIST > 0)) ==> K == W_latency + 1)
/* a pending instant ahead of us is never skipped (C21) */
__CPROVER_ensures((W_pending && INSTANT_DIST > 0) ==> (K <= INSTANT_DIST && (!MUST_LISTEN ==> K == BT_MIN((uint16_t)(W_latency + 1), INSTANT_DIST))))
/* counter, channel index and time move together by exactly k events */
__CPROVER_ensures(self->channel_index_ == (W_index + K) % 37u)
__CPROVER_ensures(self->time_since_last_event_.usec_ == UMUL(K, W_interval))
__CPROVER_ensures(G_last_latency_calls == 1 && G_last_latency_arg == K)
__CPROVER_assigns(self->channel_index_, self->event_counter_, self->time_since_last_event_.usec_, G_last_latency_arg, G_last_latency_calls)
{{plan}}
void plan_next_connection_event_after_timeout(struct csb* self, struct delta_time connection_interval)
__CPROVER_requires(CSB_OK(self) && connection_interval.usec_ == W_interval)
__CPROVER_ensures(K == 1 && self->channel_index_ == (W_index + 1u) % 37u && self->time_since_last_event_.usec_ == W_time + W_interval)
__CPROVER_assigns(self->channel_index_, self->event_counter_, self->time_since_last_event_.usec_)
{{timeout}}
void reset_connection_state(struct csb* self)
__CPROVER_requires(__CPROVER_is_fresh(self, sizeof(struct csb)))
__CPROVER_ensures(self->channel_index_ == 0 && self->event_counter_ == 0 && self->time_since_last_event_.usec_ == 0 && G_last_latency_arg == 1)
__CPROVER_assigns(self->channel_index_, self->event_counter_, self->time_since_last_event_.usec_, G_last_latency_arg, G_last_latency_calls)
{{reset}}
/* pulling a skipped event back: counter, channel index and time move back together by -count events */
void peripheral_latency_move_connection_event(struct csb* self, int count, struct delta_time connection_iterval)
__CPROVER_requires(CSB_OK(self) && count <= 0 && count >= -499 && count == W_count && connection_iterval.usec_ == W_interval)
__CPROVER_ensures(self->event_counter_ == (uint16_t)(W_counter + count))
__CPROVER_ensures((self->channel_index_ + (unsigned)(-count)) % 37u == W_index && self->channel_index_ < 37u)
__CPROVER_ensures(self->time_since_last_event_.usec_ == W_time - UMUL(-count, W_interval))
__CPROVER_assigns(self->channel_index_, self->event_counter_, self->time_since_last_event_.usec_)
{{move}}
{{getters}}
void h_plan_next_connection_event(void) { SETUP; struct connection_event_events e = W_ev; struct delta_time i = { W_interval }; struct pair_bool_u16 p = { W_pending, W_instant };
  plan_next_connection_event(s, W_latency, e, i, p); BT_CANARY(); }
void h_plan_next_connection_event_after_timeout(void) { SETUP; struct delta_time i = { W_interval }; plan_next_connection_event_after_timeout(s, i); BT_CANARY(); }
void h_reset_connection_state(void) { SETUP; reset_connection_state(s); BT_CANARY(); }
void h_peripheral_latency_move_connection_event(void) { SETUP; struct delta_time i = { W_interval }; peripheral_latency_move_connection_event(s, W_count, i); BT_CANARY(); }
''', enforce=['plan_next_connection_event', 'plan_next_connection_event_after_timeout', 'reset_connection_state', 'peripheral_latency_move_connection_event'],
         replace=['feature', 'disarmable_connection_state_last_latency', 'dt_mul', 'dt_add_assign', 'dt_sub_assign'],
         replay=dict(src='replay/c23_replay.cpp', repo_sources=['bluetoe/link_layer/delta_time.cpp'])),
]

UNITS.append(
    dict(name='reschedule',
         extracts=dict({k: v for k, v in EX.items() if k in ('dt_fields', 'maxlat')},
             dfields=dict(kind='fields', file=PL, scope=DIS, names=['last_latency_']),
             setl=dict(file=PL, scope=DIS, locate=r'void disarmable_connection_state_last_latency\( int l \)'),
             resched=dict(file=PL, scope=DIS, locate=r'template < class Radio >\s*bool reschedule_on_pending_data_impl\( Radio& radio, delta_time connection_iterval \)',
                          rules=[(r'const std::pair< bool, bluetoe::link_layer::delta_time > rc = radio\.disarm_connection_event\(\);', 'const struct pair_bool_dt rc = radio_disarm_connection_event();', 1),
                                 (r'!connection_iterval\.zero\(\)', '!( connection_iterval.usec_ == 0 )', 1),
                                 (r'\( rc\.second \+ connection_iterval - delta_time\( 1 \) \) / connection_iterval', 'dt_ceil_div( rc.second, connection_iterval )', 1),
                                 (r'\(\(State\*\)\( this \)\)->peripheral_latency_move_connection_event\(', 'peripheral_latency_move_connection_event(', 1)])),
         code=r"""
#define maximum_link_layer_peripheral_latency ({{maxlat}})
struct delta_time { {{dt_fields}} };
struct pair_bool_dt { bool first; struct delta_time second; };
struct dis { {{dfields}} };
int W_last, W_l; bool W_disarmed; uint32_t W_remaining, W_interval; unsigned W_div;
int G_move_calls, G_move_count;
/* radio: tries to cancel the armed connection event */
struct pair_bool_dt radio_disarm_connection_event(void)
__CPROVER_ensures(__CPROVER_return_value.first == W_disarmed && __CPROVER_return_value.second.usec_ == W_remaining) __CPROVER_assigns();
/* ( a + b - 1us ) / b on the real delta_time operators (C22): abstract result here, only its use matters */
unsigned dt_ceil_div(struct delta_time a, struct delta_time b) __CPROVER_requires(b.usec_ >= 2) __CPROVER_ensures(__CPROVER_return_value == W_div && W_div <= 0x7fffffffu /* a 32 bit time divided by >= 2 */) __CPROVER_assigns();
/* proved in unit plan_next */
void peripheral_latency_move_connection_event(int count, struct delta_time connection_iterval)
__CPROVER_requires(count <= 0 && count >= -maximum_link_layer_peripheral_latency)
__CPROVER_ensures(G_move_calls == __CPROVER_old(G_move_calls) + 1 && G_move_count == count) __CPROVER_assigns(G_move_calls, G_move_count);

void disarmable_connection_state_last_latency(struct dis* self, int l)
__CPROVER_requires(__CPROVER_is_fresh(self, sizeof(*self)) && l > 0 && l == W_l)
__CPROVER_ensures(self->last_latency_ == l)
__CPROVER_assigns(self->last_latency_)
{{setl}}
/* new data became pending while events are being skipped: pull the next event back, but never before 'now' and
   never by more than what was skipped */
bool reschedule_on_pending_data_impl(struct dis* self, struct delta_time connection_iterval)
__CPROVER_requires(__CPROVER_is_fresh(self, sizeof(*self)) && self->last_latency_ >= 1 && self->last_latency_ <= 500 && self->last_latency_ == W_last)
__CPROVER_requires(connection_iterval.usec_ == W_interval && W_interval >= 7500 /* shortest connection interval, 7.5 ms */ && G_move_calls == 0)
__CPROVER_ensures(W_last == 1 ==> (!__CPROVER_return_value && G_move_calls == 0 && self->last_latency_ == 1))
__CPROVER_ensures(W_last != 1 ==> __CPROVER_return_value == W_disarmed)
__CPROVER_ensures((W_last != 1 && !W_disarmed) ==> (G_move_calls == 0 && self->last_latency_ == W_last))
/* moved back by (skipped - events still needed), at least to the next event, at most all the way */
__CPROVER_ensures((W_last != 1 && W_disarmed) ==> (G_move_calls == 1 && self->last_latency_ == 1
      && G_move_count == (int)BT_MIN((int)BT_MAX(1u, W_div), W_last) - W_last && G_move_count <= 0 && G_move_count > -W_last))
__CPROVER_assigns(self->last_latency_, G_move_calls, G_move_count)
{{resched}}
#define SETUP struct dis* d; W_last = nondet_int(); W_l = nondet_int(); W_disarmed = nondet_bool(); W_remaining = nondet_u32(); W_interval = nondet_u32(); W_div = nondet_unsigned(); \
   G_move_calls = 0; BT_KNOWN_EXCLUDE()
void h_disarmable_connection_state_last_latency(void) { SETUP; disarmable_connection_state_last_latency(d, W_l); BT_CANARY(); }
void h_reschedule_on_pending_data_impl(void) { SETUP; struct delta_time i = { W_interval }; reschedule_on_pending_data_impl(d, i); BT_CANARY(); }
""", enforce=['disarmable_connection_state_last_latency', 'reschedule_on_pending_data_impl'],
         replace=['radio_disarm_connection_event', 'dt_ceil_div', 'peripheral_latency_move_connection_event'],
         trusted=["radio.disarm_connection_event() (scheduled radio)"]))

META = dict(
    level='proof',
    explanation="connection_state_base's plan_next_connection_event, plan_next_connection_event_after_timeout, reset_connection_state and "
                "peripheral_latency_move_connection_event are extracted and proved, loop-free, for every 16-bit counter/instant/latency value, "
                "every combination of the six listen options (symbolic booleans) and every event outcome: 1 <= k <= latency+1; k == 1 whenever "
                "an enabled listen condition or an error held; a pending instant ahead is never skipped; event counter, channel index "
                "(mod 37) and elapsed time move together by exactly k events, forwards and backwards.",
    assumptions=["delta_time multiplication is an uninterpreted function in this check (the real operators are under contract in C22)",
                 "which listen options are enabled comes from the type-level feature_enabled<> (evaluated by the C++ compiler): symbolic booleans here",
                 "connection latency <= 499 (Core spec range, enforced by the parameter checks of C22)"],
    trusted_base=["feature(): peripheral_latency_feature<>() results (type level)"],
)
