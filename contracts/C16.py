"""C16 Encryption packet counters advance exactly once per new PDU."""
import os, sys
sys.path.insert(0, os.path.dirname(__file__))
import importlib.util
from common import BITS32_EXTRACTS, BITS32_CODE
def _load(name):
    sp = importlib.util.spec_from_file_location(name, os.path.join(os.path.dirname(__file__), name + '.py'))
    m = importlib.util.module_from_spec(sp); sp.loader.exec_module(m); return m
_c15 = _load('C15')
N52H = 'bluetoe/bindings/nordic/nrf52/include/bluetoe/nrf52.hpp'
N52C = 'bluetoe/bindings/nordic/nrf52/nrf52.cpp'
UNITS = [dict(u, enforce=['received', 'acknowledge_bool']) for u in _c15.UNITS if u['name'] == 'llbuf']
RULES = [(r'details::write_32bit', 'write_32bit', '*')]
UNITS.append(dict(name='counter',
    extracts=dict(BITS32_EXTRACTS,
        fields=dict(kind='fields', file=N52H, scope=r'struct counter\b', names=['low', 'high']),
        ctor=dict(file=N52C, locate=r'counter::counter\(\)', init_list=True, member_extra=['low', 'high']),
        inc=dict(file=N52C, locate=r'void counter::increment\(\)', member_extra=['low', 'high']),
        copy=dict(file=N52C, locate=r'void counter::copy_to\( std::uint8_t\* target \) const', member_extra=['low', 'high'], rules=RULES)),
    code=BITS32_CODE + r"""
struct counter { {{fields}} };
uint32_t W_low; uint8_t W_high;
#define CVAL(c) (((uint64_t)(c)->high << 32) | (c)->low)
void counter_ctor(struct counter* self)
__CPROVER_requires(__CPROVER_is_fresh(self, sizeof(*self)))
__CPROVER_ensures(CVAL(self) == 0)
__CPROVER_assigns(self->low, self->high)
{{ctor}}
/* the 40 bit packet counter of the CCM nonce: +1, carry from the low word into the high byte, no value skipped or repeated */
void counter_increment(struct counter* self)
__CPROVER_requires(__CPROVER_is_fresh(self, sizeof(*self)) && self->low == W_low && self->high == W_high)
__CPROVER_ensures(CVAL(self) == ((((uint64_t)W_high << 32) | W_low) + 1) % ((uint64_t)1 << 40))
__CPROVER_assigns(self->low, self->high)
{{inc}}
/* written to the CCM data structure little endian, low octet first */
void counter_copy_to(const struct counter* self, uint8_t* target)
__CPROVER_requires(__CPROVER_is_fresh(self, sizeof(*self)) && self->low == W_low && self->high == W_high && __CPROVER_is_fresh(target, 5))
__CPROVER_ensures(target[0] == (W_low & 0xff) && target[1] == ((W_low >> 8) & 0xff) && target[2] == ((W_low >> 16) & 0xff) && target[3] == (W_low >> 24) && target[4] == W_high)
__CPROVER_assigns(__CPROVER_object_upto(target, 5))
{{copy}}
#define SETUP struct counter* c; W_low = nondet_u32(); W_high = nondet_u8(); BT_KNOWN_EXCLUDE()
void h_counter_ctor(void) { SETUP; counter_ctor(c); BT_CANARY(); }
void h_counter_increment(void) { SETUP; counter_increment(c); BT_CANARY(); }
void h_counter_copy_to(void) { SETUP; uint8_t* t; counter_copy_to(c, t); BT_CANARY(); }
""", enforce=['counter_ctor', 'counter_increment', 'counter_copy_to'], flags_off=['--unsigned-overflow-check']))

META = dict(
    level='proof',
    explanation="ll_data_pdu_buffer::received / acknowledge (contracts in C15.py), for every state, header and transmit queue: "
                "increment_receive_packet_counter() is called exactly once iff the PDU is new (SN == next expected) and has a non-zero length, "
                "never for a retransmission, an empty PDU or a PDU with failed MIC; increment_transmit_packet_counter() exactly once iff the "
                "oldest committed PDU is acknowledged (removed), never for a NAK, for the internal empty PDU or when nothing was queued. "
                "nrf52 counter::increment / copy_to / ctor: 40 bit +1 with carry, little endian serialisation, starts at 0.",
    assumptions=["'no nonce reused or skipped' over a whole connection follows from one increment per delivered PDU by induction over the steps; the "
                 "steps are machine checked, the induction is on paper",
                 "committed PDUs are never empty (LL control and L2CAP PDUs carry at least one octet), so 'acknowledged non-empty PDU' == 'oldest "
                 "committed PDU acknowledged'; the internal empty PDU is kept outside the transmit ring",
                 "a new PDU with length != 0 and LLID 0 (invalid) is counted but not stored - consistent with the statement (counts non-empty PDUs)",
                 "that the nRF52 radio wires increment_*_packet_counter to counter::increment of the matching direction is two one-line forwarders, read not proved"],
    trusted_base=["CCM hardware uses the counter bytes written by copy_to"],
)
