"""C39 The bootloader only touches white-listed memory."""
import os, sys, re
sys.path.insert(0, os.path.dirname(__file__))
from common import BITS32_EXTRACTS, BITS32_CODE, COPY_RULE
BL = 'bluetoe/services/bootloader.hpp'
CODES = 'bluetoe/utility/include/bluetoe/codes.hpp'
WL = r'struct white_list< memory_region< Start, End >, Regions \.\.\. >\s*(?=\{)'
WL0 = r'struct white_list<>\s*(?=\{)'
FB = r'class flash_buffer\s*(?=\{)'
CT = r'class controller : public UserHandler\s*(?=\{)'

FBR = [(r'\bPageSize\b', 'G_PageSize', '*'), (r'h\.read_mem\(', 'h_read_mem(', '*'), (r'h\.start_flash\(', 'h_start_flash(', '*'), (r'h\.checksum32\(', 'h_checksum32_buf(', '*'),
       (r'(?<![\w.>])flush\( h \)', 'fb_flush( self )', '*'), COPY_RULE('*'),
       (r'\bidle\b', 'fb_idle', '*'), (r'\bfilling\b', 'fb_filling', '*'), (r'\bflashing\b', 'fb_flashing', '*')]
def fb(sig, **kw):
    d = dict(file=BL, scope=FB, locate=sig, rules=FBR); d.update(kw); return d
CR = [(r'\bPageSize\b', 'G_PageSize', '*'), (r'MemRegions::acceptable\(', 'acceptable(', '*'),
      (r'std::make_pair\( ', '(struct pair_u8_bool){ ', '*'), (r'std::pair< uint8_t, bool >\{', '(struct pair_u8_bool){', '*'), (r'\(struct pair_u8_bool\)\{([^;{}]*?)\);', r'(struct pair_u8_bool){\1};', '*'),
      (r'bluetoe::error_codes::', 'error_codes_', '*'), (r'att_error_codes::invalid_opcode', 'invalid_opcode', '*'), (r'error_codes::success', 'bl_error_codes_success', '*'),
      (r'error_codes_success', 'error_codes_success', '*'),
      (r'for \( (?:auto|__auto_type|const __auto_type)& buffer : self->buffers_ \)\s*buffer\.free\(\);', 'fb_free( &self->buffers_[ 0 ] ); fb_free( &self->buffers_[ 1 ] );', '*'),
      (r'self->buffers_\[\s*(self->next_buffer_|next|self->used_buffer_)\s*\]\.(free_size|crc|consecutive|empty|free)\(\)', r'fb_\2( &self->buffers_[ \1 ] )', '*'),
      (r'self->buffers_\[\s*(self->next_buffer_|next)\s*\]\.flush\( \*this \)', r'fb_flush( &self->buffers_[ \1 ] )', '*'),
      (r'self->buffers_\[\s*(self->next_buffer_|next)\s*\]\.write_data\( write_size, value, \*this \)', r'fb_write_data( &self->buffers_[ \1 ], write_size, value )', '*'),
      (r'self->buffers_\[\s*(self->next_buffer_|next)\s*\]\.set_start_address\( start_address, \*this, ([^;]*?), self->consecutive_ \);', r'fb_set_start_address( &self->buffers_[ \1 ], start_address, \2, self->consecutive_ );', '*'),
      (r'self->public_checksum32\(', 'h_public_checksum32(', '*'), (r'self->public_read_mem\(', 'h_public_read_mem(', '*'),
      (r'self->checksum32\( start_address \)', 'h_checksum32_addr( start_address )', '*'), (r'self->checksum32\( out_buffer, \(\*out_size\), check_sum \)', 'h_checksum32_buf( out_buffer, (*out_size), check_sum )', '*'),
      (r'self->run\(', 'h_run(', '*'), (r'self->reset\(\)', 'h_reset()', '*'), (r'self->data_indication_call_back\(\)', 'h_data_indication_call_back()', '*'),
      (r'self->control_point_notification_call_back\(\)', 'h_control_point_notification_call_back()', '*'),
      (r'(?<![\w.>])read_address\(', 'read_address( self, ', '*'), (r'(?<![\w.>])request_error\(', 'request_error( self, ', '*'), (r'(?<![\w.>])find_next_buffer\(', 'find_next_buffer( self, ', '*'),
      (r'sizeof\( uint8_t\* \)', 'sizeof_ptr', '*'),
      (r'\b(opcode|start_address|end_address|check_sum|in_flash_mode|error)\b(?!_)', r'self->\1', '*'),
      (r'const uintptr_t self->(end_address|start_address)', r'const uintptr_t local_\1', '*'),
      ]
def ct(sig, **kw):
    d = dict(file=BL, scope=CT, locate=sig, rules=CR); d.update(kw); return d
EX = dict(BITS32_EXTRACTS,
    error_codes=dict(kind='enum', file=CODES, name='error_codes'),
    bl_att_errors=dict(kind='text', body='text', file=BL, locate=r'enum att_error_codes : std::uint8_t \{[^}]*\}', no_members=True,
                       rules=[(r'enum att_error_codes : uint8_t', 'enum bl_att_error_codes', 1), (r'bluetoe::error_codes::application_error_start', 'error_codes_application_error_start', 1)]),
    bl_errors=dict(kind='enum', file=BL, name='error_codes', rename='bl_error_codes', id='bl_errors'),
    opcodes=dict(kind='text', body='text', file=BL, locate=r'enum opcode : std::uint8_t\s*\{[^}]*\}', no_members=True, rules=[(r'enum opcode : uint8_t', 'enum opcode', 1)]),
    wl_step=dict(file=BL, scope=WL, locate=r'static bool acceptable\( std::uintptr_t start, std::uintptr_t end \)',
                 rules=[(r'\bStart\b', 'G_Start[level]', 1), (r'\bEnd\b', 'G_End[level]', 1), (r'white_list< Regions\.\.\. >::acceptable\( start, end \)', 'acceptable_rest( level + 1, start, end )', 1)]),
    wl_base=dict(file=BL, scope=WL0, locate=r'static bool acceptable\( std::uintptr_t, std::uintptr_t \)'),
    fb_fields=dict(kind='fields', file=BL, scope=FB, names=['addr_', 'ptr_', 'crc_', 'buffer_', 'consecutive_'], rules=[(r'\[ PageSize \]', '[PAGE_MAX]', '*')]),
    fb_ctor=fb(r'flash_buffer\(\)', init_list=True),
    fb_free_size=fb(r'std::uint32_t free_size\(\) const'),
    fb_set_start=fb(r'void set_start_address\( std::uintptr_t address, Handler& h, std::uint32_t checksum, std::uint16_t cons \)'),
    fb_write=fb(r'std::size_t write_data\( std::size_t write_size, const std::uint8_t\* value, Handler& h \)'),
    fb_flush=fb(r'bool flush\( Handler& h \)'),
    fb_crc=fb(r'std::uint32_t crc\(\) const'), fb_free=fb(r'void free\(\)'), fb_empty=fb(r'bool empty\(\) const'), fb_consecutive=fb(r'std::uint16_t consecutive\(\) const'),
    ct_fields=dict(kind='fields', file=BL, scope=CT, names=['opcode', 'start_address', 'end_address', 'error', 'check_sum', 'in_flash_mode', 'next_buffer_', 'used_buffer_', 'consecutive_'],
                   type_map={'error_codes': 'enum bl_error_codes'}),
    nflash=dict(kind='expr', file=BL, scope=CT, locate=r'static constexpr std::size_t\s+number_of_concurrent_flashs\s*='),
    read_address=ct(r'std::uintptr_t read_address\( const std::uint8_t\* rend \)',
                    loops=[dict(header=r'for \( const uint8_t\* rbegin = rend \+ sizeof_ptr; rbegin != rend; --rbegin \)',
                                contract="""__CPROVER_assigns(rbegin, result)
                                __CPROVER_loop_invariant(__CPROVER_same_object(rbegin, rend) && __CPROVER_POINTER_OFFSET(rbegin) >= __CPROVER_POINTER_OFFSET(rend) && __CPROVER_POINTER_OFFSET(rbegin) <= __CPROVER_POINTER_OFFSET(rend) + sizeof_ptr
                                    && result == (__CPROVER_POINTER_OFFSET(rbegin) == __CPROVER_POINTER_OFFSET(rend) + sizeof_ptr ? 0 : (RA_SPEC(rend) >> (8 * (__CPROVER_POINTER_OFFSET(rbegin) - __CPROVER_POINTER_OFFSET(rend))))))
                                __CPROVER_decreases(__CPROVER_POINTER_OFFSET(rbegin) - __CPROVER_POINTER_OFFSET(rend))""")],
                    rules=CR + [(r'(result = result << 8;)', r'{ size_t bt_o = __CPROVER_POINTER_OFFSET(rbegin); BT_GHOST_REBIND(rbegin, G_value + bt_o); } \1', 1)]),
    write_cp=ct(r'std::pair< std::uint8_t, bool > bootloader_write_control_point\( std::size_t write_size, const std::uint8_t\* value \)'),
    write_data=ct(r'std::uint8_t bootloader_write_data\( std::size_t write_size, const std::uint8_t\* value \)'),
    read_data=ct(r'std::uint8_t bootloader_read_data\( std::size_t read_size, std::uint8_t\* out_buffer, std::size_t& out_size \)', rules=[(r'\bout_size\b', '(*out_size)', '*')] + CR),
    find_next=ct(r'bool find_next_buffer\( std::size_t start_address \)', rules=[r for r in CR if 'opcode|start_address' not in r[0]] + [(r'\b(opcode|check_sum|in_flash_mode)\b(?!_)', r'self->\1', '*')]),
    request_error=ct(r'std::pair< std::uint8_t, bool > request_error\( std::uint8_t code \)'),
    ct_ctor=ct(r'controller\(\)', init_list=True),
)

CODE = BITS32_CODE + r'''
{{error_codes}};
{{bl_att_errors}};
{{bl_errors}};
{{opcodes}};
/* bootloader::error_codes (enum class) is extracted as enum bl_error_codes: it clashes with bluetoe::error_codes otherwise */
#ifndef PAGE_MAX
#define PAGE_MAX 16
#endif
size_t G_PageSize;                          /* page_size< PageSize > */
#define sizeof_ptr ((size_t)sizeof(uint8_t*))
struct pair_u8_bool { uint8_t first; bool second; };

/* ---- white_list< memory_region< Start, End >... >::acceptable: the step is verified with the rest of the list replaced by the same contract
   (induction over the type list); the empty list is the base */
#define REGIONS 3
uintptr_t G_Start[REGIONS], G_End[REGIONS]; size_t G_nregions;
#define IN_REGION(k, s, e) ((k) < G_nregions && (s) >= G_Start[k] && (e) <= G_End[k])
#define ACC_FROM(level, s, e) (((level) <= 0 && IN_REGION(0, s, e)) || ((level) <= 1 && IN_REGION(1, s, e)) || ((level) <= 2 && IN_REGION(2, s, e)))
#define ACC(s, e) ((s) <= (e) && ACC_FROM(0, s, e))     /* a memory operation on [s, e): inside one region, and the range does not wrap */
bool wl_base(uintptr_t a, uintptr_t b) __CPROVER_ensures(!__CPROVER_return_value) __CPROVER_assigns()
{{wl_base}}
bool acceptable_rest(size_t level, uintptr_t start, uintptr_t end)
__CPROVER_requires(level <= REGIONS && G_nregions <= REGIONS)
__CPROVER_ensures(__CPROVER_return_value == ACC_FROM(level, start, end))
__CPROVER_assigns();
bool wl_step(size_t level, uintptr_t start, uintptr_t end)
__CPROVER_requires(level < G_nregions && G_nregions <= REGIONS)
__CPROVER_ensures(__CPROVER_return_value == ACC_FROM(level, start, end))
__CPROVER_assigns()
{{wl_step}}
/* the instantiated list (glue): level k is the step for k < number of regions, the empty list otherwise */
static inline bool acceptable(uintptr_t start, uintptr_t end)
{ const bool r2 = (2 < G_nregions) && (start >= G_Start[2] && end <= G_End[2]); const bool r1 = (1 < G_nregions) ? ((start >= G_Start[1] && end <= G_End[1]) || r2) : false;
  return (0 < G_nregions) ? ((start >= G_Start[0] && end <= G_End[0]) || r1) : false; }

/* ---- the user's hardware handler: every memory operation must lie inside the white list (obligation at each call site) */
struct mem_rec { size_t reads, flashes, sums, pub_reads; uintptr_t flash_addr; size_t flash_size; const uint8_t* flash_src; uintptr_t read_addr; size_t read_size; } G_mem;
uint32_t G_crc_out; int G_bl_err;
void h_read_mem(uintptr_t address, size_t size, uint8_t* destination)
__CPROVER_requires(size == 0 || (ACC(address, address + size) && __CPROVER_rw_ok(destination, size)))
__CPROVER_ensures(G_mem.reads == __CPROVER_old(G_mem.reads) + 1 && G_mem.read_addr == address && G_mem.read_size == size)
__CPROVER_assigns(G_mem.reads, G_mem.read_addr, G_mem.read_size) __CPROVER_assigns(size != 0: __CPROVER_object_upto(destination, size));
int h_start_flash(uintptr_t address, const uint8_t* values, size_t size)
__CPROVER_requires(ACC(address, address + size) && __CPROVER_r_ok(values, size))
__CPROVER_ensures(G_mem.flashes == __CPROVER_old(G_mem.flashes) + 1 && G_mem.flash_addr == address && G_mem.flash_size == size && G_mem.flash_src == values)
__CPROVER_assigns(G_mem.flashes, G_mem.flash_addr, G_mem.flash_size, G_mem.flash_src);
uint32_t h_public_checksum32(uintptr_t start_addr, size_t size)
__CPROVER_requires(ACC(start_addr, start_addr + size))
__CPROVER_ensures(G_mem.sums == __CPROVER_old(G_mem.sums) + 1) __CPROVER_assigns(G_mem.sums);
enum bl_error_codes h_public_read_mem(uintptr_t address, size_t size, uint8_t* destination)
__CPROVER_requires(size == 0 || (ACC(address, address + size) && __CPROVER_rw_ok(destination, size)))
__CPROVER_ensures(G_mem.pub_reads == __CPROVER_old(G_mem.pub_reads) + 1 && (int)__CPROVER_return_value == G_bl_err)
__CPROVER_assigns(G_mem.pub_reads) __CPROVER_assigns(size != 0: __CPROVER_object_upto(destination, size));
/* CRC functions are pure; their values are abstract */
uint32_t __CPROVER_uninterpreted_crc_buf(uint32_t old_crc, size_t size, uint8_t first);
uint32_t h_checksum32_buf(const uint8_t* start, size_t size, uint32_t old_crc)
__CPROVER_requires(size == 0 || __CPROVER_r_ok(start, size))
__CPROVER_ensures(__CPROVER_return_value == G_crc_out) __CPROVER_assigns();
uint32_t h_checksum32_addr(uintptr_t start_addr) __CPROVER_ensures(__CPROVER_return_value == G_crc_out) __CPROVER_assigns();
void h_run(uintptr_t a) __CPROVER_requires(1) __CPROVER_ensures(1) __CPROVER_assigns();
void h_reset(void) __CPROVER_requires(1) __CPROVER_ensures(1) __CPROVER_assigns();
size_t G_ind_calls, G_ntf_calls;
void h_data_indication_call_back(void) __CPROVER_ensures(G_ind_calls == __CPROVER_old(G_ind_calls) + 1) __CPROVER_assigns(G_ind_calls);
void h_control_point_notification_call_back(void) __CPROVER_ensures(G_ntf_calls == __CPROVER_old(G_ntf_calls) + 1) __CPROVER_assigns(G_ntf_calls);

/* ---- flash_buffer< PageSize > */
enum fb_state { fb_idle, fb_filling, fb_flashing };
struct fb { enum fb_state state_; {{fb_fields}} };
#define PAGE_OK (G_PageSize >= 2 && G_PageSize <= PAGE_MAX && (G_PageSize & (G_PageSize - 1)) == 0)   /* flash page sizes are powers of two (keeps the symbolic modulo tractable) */
/* the white listed regions are page aligned (assumed configuration rule): a page is inside the list iff one of its addresses is */
#define PAGE_ALIGNED_REGIONS ((G_nregions < 1 || (G_Start[0] % G_PageSize == 0 && G_End[0] % G_PageSize == 0)) && (G_nregions < 2 || (G_Start[1] % G_PageSize == 0 && G_End[1] % G_PageSize == 0)) \
    && (G_nregions < 3 || (G_Start[2] % G_PageSize == 0 && G_End[2] % G_PageSize == 0)) && G_nregions <= REGIONS \
    && G_End[0] <= UINTPTR_MAX - 8192 && G_End[1] <= UINTPTR_MAX - 8192 && G_End[2] <= UINTPTR_MAX - 8192)
/* invariant of a buffer that is not idle: it holds one page inside the white list */
#define FB_INV(b) ((b)->state_ == fb_idle ? (b)->ptr_ == 0 : ((b)->ptr_ <= G_PageSize && (b)->addr_ % G_PageSize == 0 && ACC((b)->addr_, (b)->addr_ + G_PageSize)))
uintptr_t W_addr; size_t W_n, W_ptr; int W_state; uintptr_t W_baddr; uintptr_t W_sa0;
void fb_ctor(struct fb* self) __CPROVER_requires(__CPROVER_is_fresh(self, sizeof(*self))) __CPROVER_ensures(self->state_ == fb_idle && self->ptr_ == 0) __CPROVER_assigns(self->state_, self->ptr_)
{{fb_ctor}}
uint32_t fb_free_size(const struct fb* self) __CPROVER_requires(__CPROVER_r_ok(self, sizeof(*self)) && PAGE_OK && FB_INV(self))
__CPROVER_ensures(__CPROVER_return_value == (self->state_ == fb_filling ? G_PageSize - self->ptr_ : 0)) __CPROVER_assigns()
{{fb_free_size}}
uint32_t fb_crc(const struct fb* self) __CPROVER_requires(__CPROVER_r_ok(self, sizeof(*self))) __CPROVER_ensures(__CPROVER_return_value == self->crc_) __CPROVER_assigns()
{{fb_crc}}
uint16_t fb_consecutive(const struct fb* self) __CPROVER_requires(__CPROVER_r_ok(self, sizeof(*self))) __CPROVER_ensures(__CPROVER_return_value == self->consecutive_) __CPROVER_assigns()
{{fb_consecutive}}
bool fb_empty(const struct fb* self) __CPROVER_requires(__CPROVER_r_ok(self, sizeof(*self))) __CPROVER_ensures(__CPROVER_return_value == (self->state_ == fb_idle)) __CPROVER_assigns()
{{fb_empty}}
void fb_free(struct fb* self) __CPROVER_requires(__CPROVER_rw_ok(self, sizeof(*self))) __CPROVER_ensures(self->state_ == fb_idle && self->ptr_ == 0) __CPROVER_assigns(self->state_, self->ptr_)
{{fb_free}}
/* a page is taken into the buffer: only for an address inside the white list; the part of the page in front of the address is read back (inside the list) */
void fb_set_start_address(struct fb* self, uintptr_t address, uint32_t checksum, uint16_t cons)
__CPROVER_requires(__CPROVER_rw_ok(self, sizeof(*self)) && PAGE_OK && PAGE_ALIGNED_REGIONS && self->state_ == fb_idle && ACC(address, address + 1) && WIT(fb_set_start_address, address == W_addr))
__CPROVER_ensures(self->state_ == fb_filling && self->ptr_ == address % G_PageSize && self->addr_ == address - address % G_PageSize && self->crc_ == checksum && self->consecutive_ == cons && FB_INV(self))
__CPROVER_assigns(self->state_, self->ptr_, self->addr_, self->crc_, self->consecutive_, __CPROVER_object_upto(self->buffer_, PAGE_MAX), G_mem.reads, G_mem.read_addr, G_mem.read_size)
{{fb_set_start}}
/* the rest of a partially filled page is read back and the whole page (inside the list) is flashed from the buffer */
bool fb_flush(struct fb* self)
__CPROVER_requires(__CPROVER_rw_ok(self, sizeof(*self)) && PAGE_OK && PAGE_ALIGNED_REGIONS && FB_INV(self) && WIT(fb_flush, (int)self->state_ == W_state && self->ptr_ == W_ptr && self->addr_ == W_baddr))
__CPROVER_ensures(__CPROVER_return_value == (__CPROVER_old(self->state_) == fb_filling && __CPROVER_old(self->ptr_) != 0))
__CPROVER_ensures(__CPROVER_return_value ? (self->state_ == fb_flashing && G_mem.flashes == __CPROVER_old(G_mem.flashes) + 1 && G_mem.flash_addr == self->addr_ && G_mem.flash_size == G_PageSize && G_mem.flash_src == &self->buffer_[0])
                                         : (self->state_ == __CPROVER_old(self->state_) && G_mem.flashes == __CPROVER_old(G_mem.flashes)))
__CPROVER_ensures(FB_INV(self) && self->addr_ == __CPROVER_old(self->addr_))
__CPROVER_assigns(self->state_, G_mem) __CPROVER_assigns(self->ptr_ < G_PageSize: __CPROVER_object_upto(&self->buffer_[self->ptr_], G_PageSize - self->ptr_))
{{fb_flush}}
/* received data lands at the page offset that corresponds to the client's address; at most to the end of the page; a full page is flashed */
size_t fb_write_data(struct fb* self, size_t write_size, const uint8_t* value)
__CPROVER_requires(__CPROVER_rw_ok(self, sizeof(*self)) && PAGE_OK && PAGE_ALIGNED_REGIONS && FB_INV(self) && self->state_ == fb_filling && self->ptr_ != G_PageSize && write_size >= 1 && write_size <= 600 && __CPROVER_r_ok(value, write_size)
    && G_pre_j < PAGE_MAX && G_pre_j2 == G_pre_j && G_pre_j3 == G_pre_j && WIT(fb_write_data, self->ptr_ == W_ptr && write_size == W_n))
__CPROVER_ensures(__CPROVER_return_value == BT_MIN(G_PageSize - __CPROVER_old(self->ptr_), write_size) && __CPROVER_return_value >= 1)
__CPROVER_ensures(self->ptr_ == __CPROVER_old(self->ptr_) + __CPROVER_return_value && self->addr_ == __CPROVER_old(self->addr_) && FB_INV(self))
__CPROVER_ensures(G_pre_j < __CPROVER_return_value ==> self->buffer_[__CPROVER_old(self->ptr_) + G_pre_j] == value[G_pre_j])
__CPROVER_ensures(self->ptr_ == G_PageSize ? (self->state_ == fb_flashing && G_mem.flashes == __CPROVER_old(G_mem.flashes) + 1 && G_mem.flash_addr == self->addr_ && G_mem.flash_size == G_PageSize)
                                            : (self->state_ == fb_filling && G_mem.flashes == __CPROVER_old(G_mem.flashes)))
__CPROVER_assigns(self->state_, self->ptr_, self->crc_, __CPROVER_object_upto(self->buffer_, PAGE_MAX), G_mem)
{{fb_write}}
#define FSETUP W_addr = nondet_size(); W_n = nondet_size(); W_ptr = nondet_size(); W_state = nondet_int(); W_baddr = nondet_size(); G_PageSize = nondet_size(); G_nregions = nondet_size(); \
  for (int k = 0; k < REGIONS; ++k) { G_Start[k] = nondet_size(); G_End[k] = nondet_size(); } G_pre_j = nondet_size(); G_pre_j2 = G_pre_j; G_pre_j3 = G_pre_j; struct fb b; b.state_ = nondet_int(); b.ptr_ = nondet_size(); b.addr_ = nondet_size(); BT_KNOWN_EXCLUDE()
void h_wl_base(void) { FSETUP; wl_base(nondet_size(), nondet_size()); BT_CANARY(); }
void h_wl_step(void) { FSETUP; wl_step(nondet_size(), nondet_size(), nondet_size()); BT_CANARY(); }
void h_fb_ctor(void) { FSETUP; struct fb* p; fb_ctor(p); BT_CANARY(); }
void h_fb_free_size(void) { FSETUP; fb_free_size(&b); BT_CANARY(); }
void h_fb_set_start_address(void) { FSETUP; fb_set_start_address(&b, W_addr, nondet_u32(), nondet_u16()); BT_CANARY(); }
void h_fb_flush(void) { FSETUP; fb_flush(&b); BT_CANARY(); }
void h_fb_write_data(void) { FSETUP; __CPROVER_assume(W_n >= 1 && W_n <= 600); uint8_t* v = malloc(W_n); __CPROVER_assume(v); fb_write_data(&b, W_n, v); BT_CANARY(); }
'''
UNITS = [
    dict(name='flash_buffer', extracts={k: v for k, v in EX.items() if not k.startswith(('ct_', 'read_address', 'write_', 'read_data', 'find_next', 'request_error', 'nflash'))},
         code='#include <stdlib.h>\n' + CODE, defines=['BT_NEED_COPY', 'BT_BYTES_MAX=600'], object_bits=10, thorough_defines=['PAGE_MAX=128'],
         enforce=['wl_base', 'wl_step', 'fb_ctor', 'fb_free_size', 'fb_set_start_address', 'fb_flush', 'fb_write_data'],
         replace=['acceptable_rest', 'h_read_mem', 'h_start_flash', 'h_checksum32_buf', 'bt_copy_u8', 'fb_flush'], flags_off=['--unsigned-overflow-check']),
]

# ------------------------------------------------------------------ controller< UserHandler, MemRegions, PageSize >
C_CODE = CODE[:CODE.index('#define FSETUP')] + r"""
#define number_of_concurrent_flashs ((size_t)({{nflash}}))
struct ctl { {{ct_fields}} struct fb buffers_[2]; };
const uint8_t* G_value; size_t G_value_size;     /* ghost: the written attribute value (base object for pointer rebinding) */
#define RA_SPEC(p) ((uintptr_t)(p)[0] | ((uintptr_t)(p)[1] << 8) | ((uintptr_t)(p)[2] << 16) | ((uintptr_t)(p)[3] << 24) | ((uintptr_t)(p)[4] << 32) | ((uintptr_t)(p)[5] << 40) | ((uintptr_t)(p)[6] << 48) | ((uintptr_t)(p)[7] << 56))
/* an address is transmitted little endian in sizeof( void* ) octets */
uintptr_t read_address(struct ctl* self, const uint8_t* rend)
__CPROVER_requires(__CPROVER_same_object(rend, G_value) && __CPROVER_POINTER_OFFSET(rend) + sizeof_ptr <= G_value_size && __CPROVER_r_ok(G_value, G_value_size) && G_value_size <= 64)
__CPROVER_ensures(__CPROVER_return_value == RA_SPEC(rend))
__CPROVER_assigns()
{{read_address}}
struct pair_u8_bool request_error(struct ctl* self, uint8_t code)
__CPROVER_requires(__CPROVER_rw_ok(self, sizeof(*self)))
__CPROVER_ensures(__CPROVER_return_value.first == code && !__CPROVER_return_value.second && self->opcode == undefined_opcode && !self->in_flash_mode)
__CPROVER_assigns(self->opcode, self->in_flash_mode)
{{request_error}}
/* representation invariant of the controller: every buffered page lies inside the white list; while data is accepted the buffer in use ends exactly at the
   client's running address; a Read procedure is confined to the range that was accepted */
#define CT_INV(c) ((c)->next_buffer_ < 2 && (c)->used_buffer_ < 2 && FB_INV(&(c)->buffers_[0]) && FB_INV(&(c)->buffers_[1]) \
    && (((c)->in_flash_mode && (c)->buffers_[(c)->next_buffer_].state_ != fb_idle) ==> (c)->buffers_[(c)->next_buffer_].addr_ + (c)->buffers_[(c)->next_buffer_].ptr_ == (c)->start_address) \
    && ((c)->opcode == opc_read ==> ((c)->start_address <= (c)->end_address && ((c)->start_address == (c)->end_address || ACC((c)->start_address, (c)->end_address)))))
#define CFG_OK (PAGE_OK && PAGE_ALIGNED_REGIONS)
/* a new page is taken into the other buffer only if it is free and the running address is inside the white list */
bool find_next_buffer(struct ctl* self, size_t start_address)
__CPROVER_requires(__CPROVER_rw_ok(self, sizeof(*self)) && CFG_OK && CT_INV(self))
__CPROVER_ensures(__CPROVER_return_value ? (self->next_buffer_ == 1 - __CPROVER_old(self->next_buffer_) && self->buffers_[self->next_buffer_].state_ == fb_filling
        && self->buffers_[self->next_buffer_].addr_ + self->buffers_[self->next_buffer_].ptr_ == start_address && self->buffers_[self->next_buffer_].ptr_ < G_PageSize && self->consecutive_ == (uint16_t)(__CPROVER_old(self->consecutive_) + 1))
    : (self->next_buffer_ == __CPROVER_old(self->next_buffer_) && G_mem.reads == __CPROVER_old(G_mem.reads) && self->consecutive_ == __CPROVER_old(self->consecutive_)
       && self->buffers_[0].state_ == __CPROVER_old(self->buffers_[0].state_) && self->buffers_[0].ptr_ == __CPROVER_old(self->buffers_[0].ptr_) && self->buffers_[0].addr_ == __CPROVER_old(self->buffers_[0].addr_)
       && self->buffers_[1].state_ == __CPROVER_old(self->buffers_[1].state_) && self->buffers_[1].ptr_ == __CPROVER_old(self->buffers_[1].ptr_) && self->buffers_[1].addr_ == __CPROVER_old(self->buffers_[1].addr_)))
__CPROVER_ensures(FB_INV(&self->buffers_[0]) && FB_INV(&self->buffers_[1]) && self->next_buffer_ < 2 && G_mem.flashes == __CPROVER_old(G_mem.flashes))
__CPROVER_assigns(self->next_buffer_, self->consecutive_, self->buffers_, G_mem)
{{find_next}}
size_t W_ws; uint8_t W_v[20]; bool W_flash; int W_op;
struct pair_u8_bool bootloader_write_control_point(struct ctl* self, size_t write_size, const uint8_t* value)
__CPROVER_requires(__CPROVER_rw_ok(self, sizeof(*self)) && CFG_OK && CT_INV(self) && write_size <= 20 && write_size == W_ws && G_value == value && G_value_size == write_size && __CPROVER_r_ok(value, write_size))
__CPROVER_requires((write_size < 1 || value[0] == W_v[0]) && self->in_flash_mode == W_flash)
/* (memory operations inside the white list and 'reads only the written octets' are obligations of the callee preconditions / pointer checks) */
__CPROVER_ensures(CT_INV(self))
__CPROVER_ensures(W_ws < 1 ==> __CPROVER_return_value.first == error_codes_invalid_attribute_value_length)
/* flashing starts only for an address inside the white list; the page is buffered at the page offset of that address, with the CRC of the address and block number 0 */
__CPROVER_ensures((W_ws >= 1 && W_v[0] == opc_start_flash && __CPROVER_return_value.first == error_codes_success) ==> (W_ws == 1 + sizeof_ptr && self->in_flash_mode && ACC(self->start_address, self->start_address + 1)
    && self->buffers_[0].state_ == fb_filling && self->buffers_[0].addr_ + self->buffers_[0].ptr_ == self->start_address && self->next_buffer_ == 0 && self->buffers_[0].consecutive_ == 0 && self->buffers_[1].state_ == fb_idle))
__CPROVER_ensures((W_ws >= 1 && W_v[0] == opc_start_flash && __CPROVER_return_value.first != error_codes_success) ==> (!self->in_flash_mode && G_mem.reads == __CPROVER_old(G_mem.reads)))
/* checksums and reads are only started for a range inside the white list */
__CPROVER_ensures((W_ws >= 1 && W_v[0] == opc_get_crc) ==> ((G_mem.sums == __CPROVER_old(G_mem.sums) || G_mem.sums == __CPROVER_old(G_mem.sums) + 1) && (G_mem.sums != __CPROVER_old(G_mem.sums) ==> W_ws == 1 + 2 * sizeof_ptr)))
__CPROVER_ensures((W_ws >= 1 && W_v[0] == opc_read && __CPROVER_return_value.first == error_codes_success) ==> (W_ws == 1 + 2 * sizeof_ptr && self->opcode == opc_read))
__CPROVER_ensures((G_mem.flashes == __CPROVER_old(G_mem.flashes) || G_mem.flashes == __CPROVER_old(G_mem.flashes) + 1) && (G_mem.flashes != __CPROVER_old(G_mem.flashes) ==> (W_v[0] == opc_flush && __CPROVER_old(self->in_flash_mode))))
__CPROVER_assigns(*self, G_mem, G_ind_calls, G_ntf_calls)
{{write_cp}}
/* data: accepted only in flash mode; every octet goes to the buffer position of the client's running address; pages are flashed when full */
uint8_t bootloader_write_data(struct ctl* self, size_t write_size, const uint8_t* value)
__CPROVER_requires(__CPROVER_rw_ok(self, sizeof(*self)) && CFG_OK && CT_INV(self) && write_size <= 64 && write_size == W_ws && G_value == value && G_value_size == write_size && __CPROVER_r_ok(value, write_size)
    && self->in_flash_mode == W_flash && (int)self->opcode == W_op && self->start_address == W_sa0 && G_pre_j < PAGE_MAX && G_pre_j2 == G_pre_j && G_pre_j3 == G_pre_j)
__CPROVER_ensures(CT_INV(self))
__CPROVER_ensures(!W_flash ==> (__CPROVER_return_value == no_operation_in_progress && G_mem.flashes == __CPROVER_old(G_mem.flashes) && G_mem.reads == __CPROVER_old(G_mem.reads)))
__CPROVER_ensures((W_flash && __CPROVER_return_value == error_codes_success) ==> self->start_address == __CPROVER_old(self->start_address) + W_ws)
__CPROVER_ensures(__CPROVER_return_value == error_codes_success || __CPROVER_return_value == no_operation_in_progress || __CPROVER_return_value == buffer_overrun_attempt)
__CPROVER_assigns(*self, G_mem)
{{write_data}}
/* Read procedure: chunks of the accepted range only */
uint8_t bootloader_read_data(struct ctl* self, size_t read_size, uint8_t* out_buffer, size_t* out_size)
__CPROVER_requires(__CPROVER_rw_ok(self, sizeof(*self)) && CFG_OK && CT_INV(self) && read_size >= 1 && read_size <= 64 && __CPROVER_rw_ok(out_buffer, read_size) && __CPROVER_rw_ok(out_size, sizeof(size_t)) && (int)self->opcode == W_op && self->in_flash_mode == W_flash
    && *out_size == read_size /* value_handler_base passes args.buffer_size as read_size and, by reference, as out_size */)
__CPROVER_ensures(CT_INV(self) && *out_size <= read_size)
__CPROVER_ensures(W_op != opc_read ==> G_mem.pub_reads == __CPROVER_old(G_mem.pub_reads))
__CPROVER_ensures((G_mem.pub_reads == __CPROVER_old(G_mem.pub_reads) || G_mem.pub_reads == __CPROVER_old(G_mem.pub_reads) + 1) && G_mem.flashes == __CPROVER_old(G_mem.flashes))
__CPROVER_assigns(*self, *out_size, __CPROVER_object_upto(out_buffer, read_size), G_mem, G_ind_calls, G_ntf_calls)
{{read_data}}
void ctl_ctor(struct ctl* self)
__CPROVER_requires(__CPROVER_rw_ok(self, sizeof(*self)))
__CPROVER_ensures(self->opcode == undefined_opcode && !self->in_flash_mode && self->next_buffer_ == 0 && self->used_buffer_ == 0)
__CPROVER_assigns(*self)
{{ct_ctor}}
#define CSETUP W_sa0 = nondet_size(); W_ws = nondet_size(); for (int k = 0; k < 20; ++k) W_v[k] = nondet_u8(); W_flash = nondet_bool(); W_op = nondet_int(); G_PageSize = nondet_size(); G_nregions = nondet_size(); \
  for (int k = 0; k < REGIONS; ++k) { G_Start[k] = nondet_size(); G_End[k] = nondet_size(); } G_pre_j = nondet_size(); G_pre_j2 = G_pre_j; G_pre_j3 = G_pre_j; struct ctl c; \
  __CPROVER_assume(W_ws <= 64); uint8_t* v = malloc(W_ws); __CPROVER_assume(v); if (W_ws >= 1) v[0] = W_v[0]; G_value = v; G_value_size = W_ws; BT_KNOWN_EXCLUDE()
void h_read_address(void) { CSETUP; size_t o = nondet_size(); __CPROVER_assume(o <= W_ws); read_address(&c, v + o); BT_CANARY(); }
void h_request_error(void) { CSETUP; request_error(&c, nondet_u8()); BT_CANARY(); }
void h_find_next_buffer(void) { CSETUP; find_next_buffer(&c, nondet_size()); BT_CANARY(); }
void h_bootloader_write_control_point(void) { CSETUP; bootloader_write_control_point(&c, W_ws, v); BT_CANARY(); }
void h_bootloader_write_data(void) { CSETUP; bootloader_write_data(&c, W_ws, v); BT_CANARY(); }
void h_bootloader_read_data(void) { CSETUP; size_t n = nondet_size(); __CPROVER_assume(n >= 1 && n <= 64); uint8_t* o = malloc(n); __CPROVER_assume(o); size_t os = n; bootloader_read_data(&c, n, o, &os); BT_CANARY(); }
void h_ctl_ctor(void) { CSETUP; ctl_ctor(&c); BT_CANARY(); }
"""
EX['write_data']['loops'] = [dict(header=r'while \( write_size \)', contract="""__CPROVER_assigns(write_size, value, *self, G_mem)
    __CPROVER_loop_invariant(CT_INV(self) && self->in_flash_mode && (int)self->opcode == W_op && write_size <= W_ws && __CPROVER_same_object(value, G_value) && __CPROVER_POINTER_OFFSET(value) == W_ws - write_size
        && self->start_address == W_sa0 + (W_ws - write_size)
        && (write_size != 0 ==> (self->buffers_[self->next_buffer_].state_ == fb_filling && self->buffers_[self->next_buffer_].ptr_ != G_PageSize)))
    __CPROVER_decreases(write_size)""")]
EX['write_data']['rules'] = CR + [(r'(const size_t moved = )', r'{ size_t bt_o = __CPROVER_POINTER_OFFSET(value); BT_GHOST_REBIND(value, G_value + bt_o); } \1', 1)]
UNITS.append(dict(name='controller', extracts=EX, code='#include <stdlib.h>\n' + C_CODE, defines=['BT_NEED_COPY', 'BT_BYTES_MAX=600'], object_bits=10, timeout=900,
         enforce=['read_address', 'request_error', 'find_next_buffer', 'bootloader_write_control_point', 'bootloader_write_data', 'bootloader_read_data', 'ctl_ctor'],
         replace=['acceptable_rest', 'h_read_mem', 'h_start_flash', 'h_checksum32_buf', 'h_checksum32_addr', 'h_public_checksum32', 'h_public_read_mem', 'h_run', 'h_reset',
                  'h_data_indication_call_back', 'h_control_point_notification_call_back', 'bt_copy_u8', 'fb_flush', 'fb_write_data', 'fb_set_start_address', 'fb_free', 'fb_free_size', 'fb_crc',
                  'fb_consecutive', 'fb_empty', 'read_address', 'request_error', 'find_next_buffer'],
         flags_off=['--unsigned-overflow-check']))

for u in UNITS:
    u['replay'] = dict(src='replay/c39_replay.cpp', cxxflags=['-DNDEBUG'])
    if u['name'] == 'controller':
        u['defines'] = u['defines'] + ['PAGE_MAX=8']
META = dict(
    level='proof',
    explanation="services/bootloader.hpp, real bodies. white_list<...>::acceptable: step and empty list by induction over the region list (result == "
                "'some region contains [start, end]'). flash_buffer<PageSize> (ctor, free_size, set_start_address, write_data, flush, free, crc, "
                "consecutive, empty) and controller (read_address with loop contract, request_error, find_next_buffer, "
                "bootloader_write_control_point, bootloader_write_data with loop contract, bootloader_read_data, ctor) against a hardware handler "
                "whose memory operations read_mem / start_flash / public_read_mem / public_checksum32 REQUIRE the touched range to lie inside one "
                "white listed region without wrapping - so every call site has to prove it -, for symbolic page size (power of two), up to three "
                "symbolic regions, every control point value of 0..20 octets (heap object of exactly that size: any read behind the written octets "
                "fails a pointer check) and every data write of up to 64 octets. Representation invariant: every buffered page lies inside the white "
                "list; while data is accepted the buffer in use ends exactly at the client's running address (data lands at page offset = address "
                "mod page size; the CRC chain starts from checksum32( start address ) and is passed from buffer to buffer; block numbers count up).",
    assumptions=["known findings F-C39d (classes excluded): Get CRC / Read procedures issued during a flash procedure overwrite the running address",
                 "white listed regions are aligned to the page size and end below 2^64 - 8192 (configuration rule assumed): a page is then inside the "
                 "list iff one of its addresses is; with unaligned regions the page-wise read back / flash necessarily touches octets outside",
                 "page sizes are powers of two (keeps the symbolic modulo tractable); quick tier: page size <= 16 (flash_buffer) / 8 (controller)",
                 "the user's handler (hardware access, CRC functions - abstract, pure) and user callbacks are trusted; run( address ) (Start "
                 "procedure) is not a memory access of the bootloader and is not constrained by the white list in the library",
                 "bootloader_read_control_point / bootloader_progress_data (response formatting) are not under contract"],
    trusted_base=["bootloader_handler_prototype implementation supplied by the application"],
)
