"""C18 PDU ring buffers keep PDUs intact and in FIFO order."""
import os, sys
sys.path.insert(0, os.path.dirname(__file__))
from common import BITS_EXTRACTS, BITS_CODE

RB = 'bluetoe/link_layer/include/bluetoe/ring_buffer.hpp'
DL = 'bluetoe/link_layer/include/bluetoe/default_pdu_layout.hpp'
NRF = 'bluetoe/bindings/nordic/include/bluetoe/nrf.hpp'
BUF = 'bluetoe/link_layer/include/bluetoe/buffer.hpp'
T = r'template < std::size_t Size, typename Buffer, typename Layout >\s*'
Q = r'pdu_ring_buffer< Size, Buffer, Layout >::'

LAYOUT_RULES = [
    (r'Layout::header\(', 'layout_header(', '*'),
    (r'Layout::data_channel_pdu_memory_size\(', 'layout_mem_size(', '*'),
    (r'\bBuffer\{', '(struct rbuf){', '*'),
    (r'const Buffer& pdu', 'const struct rbuf* pdu', '*'),
]


def layout_extracts(file, scope):
    return {
        'lay_header_get': dict(file=file, scope=scope, locate=r'static std::uint16_t header\( const std::uint8_t\* pdu \)',
                               rules=[(r'::bluetoe::details::read_16bit', 'read_16bit', 1)]),
        'lay_header_set': dict(file=file, scope=scope, locate=r'static void header\( std::uint8_t\* pdu, std::uint16_t header_value \)',
                               rules=[(r'::bluetoe::details::write_16bit', 'write_16bit', 1)]),
        'lay_mem_size': dict(file=file, scope=scope, locate=r'static constexpr std::size_t data_channel_pdu_memory_size\( std::size_t payload_size \)'),
        'lay_header_size': dict(kind='expr', file=file, scope=scope, locate=r'static constexpr std::size_t header_size\s*='),
    }


LAYOUTS = {
    'default': layout_extracts(DL, r'struct default_pdu_layout\s*:'),
    'nrf_encrypted': layout_extracts(NRF, r'struct encrypted_pdu_layout\s*:'),
}

HEAD = BITS_CODE + r'''
#define header_size ((size_t)({{lay_header_size}}))
uint16_t layout_header_get(const uint8_t* pdu) {{lay_header_get}}
void layout_header_set(uint8_t* pdu, uint16_t header_value) {{lay_header_set}}
size_t layout_mem_size(size_t payload_size) {{lay_mem_size}}
/* C has no overloading: header(p) / header(p, v) */
#define LH_SEL(_1, _2, NAME, ...) NAME
#define layout_header(...) LH_SEL(__VA_ARGS__, layout_header_set, layout_header_get)(__VA_ARGS__)

struct rbuf { {{rbuf_fields}} };
struct ring { {{ring_fields}} };
#define ll_header_size ((size_t)({{ll_header_size}}))
#define wrap_mark ((uint16_t)({{wrap_mark}}))

#ifndef SIZE_MAXV
#define SIZE_MAXV 600
#endif
size_t Size;              /* template parameter: symbolic, fixed during a call */
size_t W_Size, W_f, W_e, W_size, W_pdu_off, W_pdu_size, W_j;
uint8_t W_len, W_lenf;
#define OVH             (layout_mem_size(0))
#define SIZE_OK         (Size >= 4 && Size <= SIZE_MAXV && Size == W_Size)
/* shape: both pointers point into (or one past) the Size bytes at buffer */
#define RING(self, buffer) (__CPROVER_is_fresh(buffer, Size) && __CPROVER_is_fresh(self, sizeof(struct ring)) \
        && W_f <= Size && W_e <= Size && __CPROVER_pointer_equals((self)->front_, (buffer) + W_f) && __CPROVER_pointer_equals((self)->end_, (buffer) + W_e))
#define OFF(p, buffer)  ((size_t)((p) - (buffer)))
/* the record starting at offset o: in-memory length from its length byte */
#define RECLEN(buffer, o) (OVH + (size_t)(buffer)[(o) + 1])
/* is offset j occupied by a live record (between end and front, in ring order)? */
#define LIVE(j, f, e)   ((f) >= (e) ? ((j) >= (e) && (j) < (f)) : ((j) >= (e) || (j) < (f)))
'''

BASE = dict(rbuf_fields=dict(kind='fields', file=BUF, scope=r'struct read_buffer\b', names=['buffer', 'size']),
            ring_fields=dict(kind='fields', file=RB, scope=r'class pdu_ring_buffer\b', names=['end_', 'front_']),
            ll_header_size=dict(kind='expr', file=RB, scope=r'class pdu_ring_buffer\b', locate=r'static constexpr std::size_t\s+ll_header_size\s*='),
            wrap_mark=dict(kind='expr', file=RB, scope=r'class pdu_ring_buffer\b', locate=r'static constexpr std::uint16_t\s+wrap_mark\s*='),
            **BITS_EXTRACTS)

PDU_LENGTH_P = dict(file=RB, locate=T + r'template < typename P >\s*std::size_t ' + Q + r'pdu_length\( P\* p \)', rules=LAYOUT_RULES)
PDU_LENGTH_B = dict(file=RB, locate=T + r'template < class P >\s*std::uint8_t ' + Q + r'pdu_length\( const P& pdu \)',
                    rules=[(r'pdu_length\( pdu\.buffer \)', 'pdu_length_p( pdu->buffer )', 1)])
PDU_LENGTH_CODE = r'''
size_t pdu_length_p(const uint8_t* p) {{pdu_length_p}}
uint8_t pdu_length_b(const struct rbuf* pdu) {{pdu_length_b}}
'''
SETUP = r'''
#define SETUP struct ring* r; uint8_t* b; struct rbuf* pb; \
    W_Size = nondet_size(); Size = W_Size; W_f = nondet_size(); W_e = nondet_size(); W_size = nondet_size(); W_j = nondet_size(); \
    W_pdu_off = nondet_size(); W_pdu_size = nondet_size(); W_len = nondet_u8(); W_lenf = nondet_u8(); BT_KNOWN_EXCLUDE()
'''


def units_for(layname, lay):
    ex = dict(BASE, **lay)
    ex_len = dict(ex, pdu_length_p=PDU_LENGTH_P, pdu_length_b=PDU_LENGTH_B)
    return [
        dict(name='alloc_front_' + layname, extracts=dict(ex, body=dict(
            file=RB, locate=T + r'Buffer ' + Q + r'alloc_front\( std::uint8_t\* buffer, std::size_t size \) const', rules=LAYOUT_RULES)),
            code=HEAD + SETUP + r'''
struct rbuf alloc_front(const struct ring* self, uint8_t* buffer, size_t size)
__CPROVER_requires(SIZE_OK && RING(self, buffer) && size >= OVH && size <= 4096 && size == W_size)
/* the ring's rule, stated over offsets: split ring -> strictly less than the gap; otherwise at the end of the
   storage if it fits, else at the start if strictly less than the space before end */
__CPROVER_ensures(W_e > W_f ?
      (size < W_e - W_f ? (__CPROVER_return_value.buffer == buffer + W_f && __CPROVER_return_value.size == size)
                        : (__CPROVER_return_value.buffer == 0 && __CPROVER_return_value.size == 0))
    : (size <= Size - W_f ? (__CPROVER_return_value.buffer == buffer + W_f && __CPROVER_return_value.size == size)
       : size < W_e       ? (__CPROVER_return_value.buffer == buffer && __CPROVER_return_value.size == size)
                          : (__CPROVER_return_value.buffer == 0 && __CPROVER_return_value.size == 0)))
/* consequence that the property names: an allocated block lies inside the storage and overlaps no live byte */
__CPROVER_ensures(__CPROVER_return_value.buffer != 0 ==>
      (OFF(__CPROVER_return_value.buffer, buffer) + size <= Size
       && !(W_j >= OFF(__CPROVER_return_value.buffer, buffer) && W_j < OFF(__CPROVER_return_value.buffer, buffer) + size && W_j < Size && LIVE(W_j, W_f, W_e))))
__CPROVER_assigns()
{{body}}
void h_alloc_front(void) { SETUP; alloc_front(r, b, W_size); BT_CANARY(); }
''', enforce=['alloc_front'], replay=dict(src='replay/c18_replay.cpp')),

        dict(name='push_front_' + layname, extracts=dict(ex_len, body=dict(
            file=RB, locate=T + r'void ' + Q + r'push_front\( std::uint8_t\* buffer, const Buffer& pdu \)',
            rules=LAYOUT_RULES + [(r'pdu\.', 'pdu->', '+'), (r'pdu_length\( pdu \)', 'pdu_length_b( pdu )', '+')])),
            code=HEAD + PDU_LENGTH_CODE + SETUP + r'''
uint8_t G_before;
void push_front(struct ring* self, uint8_t* buffer, const struct rbuf* pdu)
__CPROVER_requires(SIZE_OK && RING(self, buffer) && __CPROVER_is_fresh(pdu, sizeof(*pdu)))
/* pdu is a block alloc_front() handed out for this state (same rule as alloc_front's contract) */
__CPROVER_requires(W_pdu_size >= OVH && W_pdu_size <= 255)
__CPROVER_requires(W_e > W_f ? (W_pdu_off == W_f && W_pdu_size < W_e - W_f)
                   : ((W_pdu_off == W_f && W_pdu_size <= Size - W_f) || (W_pdu_off == 0 && W_pdu_size > Size - W_f && W_pdu_size < W_e)))
__CPROVER_requires(pdu->size == W_pdu_size && __CPROVER_pointer_equals(pdu->buffer, buffer + W_pdu_off))
/* documented preconditions: length field filled in, not 0, fits the block */
__CPROVER_requires(buffer[W_pdu_off + 1] == W_len && W_len != 0 && OVH + W_len <= pdu->size)
__CPROVER_requires(W_j < Size && G_before == buffer[W_j])
__CPROVER_ensures(self->front_ == buffer + W_pdu_off + OVH + W_len)
__CPROVER_ensures(self->end_ == (W_f == W_e ? buffer + W_pdu_off : buffer + W_e))
/* bytes: the only bytes that may change are the two header bytes at the old front_, and only when the
   new PDU went to the start of the storage; never a live byte and never a byte of the pushed PDU */
__CPROVER_ensures(buffer[W_j] != G_before ==> (W_pdu_off != W_f && (W_j == W_f || W_j == W_f + 1)))
__CPROVER_ensures((LIVE(W_j, W_f, W_e) || (W_j >= W_pdu_off && W_j < W_pdu_off + W_pdu_size)) ==> buffer[W_j] == G_before)
/* the wrap mark is there when the PDU went to the start and two bytes were left at the old front */
__CPROVER_ensures((W_pdu_off != W_f && W_f + 1 < Size) ==> buffer[W_f + 1] == 0)
__CPROVER_assigns(self->front_, self->end_, __CPROVER_object_whole(buffer))
{{body}}
void h_push_front(void) { SETUP; G_before = nondet_u8(); push_front(r, b, pb); BT_CANARY(); }
''', enforce=['push_front'], flags_off=['--pointer-overflow-check'], ignore=[r'pointer relation: pointer outside object bounds in self->(front_|end_) \+ \(signed long int\)1'], replay=dict(src='replay/c18_replay.cpp')),

        dict(name='next_pop_' + layname, extracts=dict(
            ex_len,
            next_end=dict(file=RB, locate=T + r'Buffer ' + Q + r'next_end\(\) const',
                          rules=LAYOUT_RULES + [(r'pdu_length\( self->end_ \)', 'pdu_length_p( self->end_ )', 1)]),
            pop_end=dict(file=RB, locate=T + r'void ' + Q + r'pop_end\( std::uint8_t\* buffer \)',
                         rules=LAYOUT_RULES + [(r'pdu_length\( self->end_ \)', 'pdu_length_p( self->end_ )', 1)]),
            more=dict(file=RB, locate=T + r'bool ' + Q + r'more_than_one\(\) const',
                      rules=[(r'pdu_length\( self->end_\s*\)', 'pdu_length_p( self->end_ )', 1)]),
            reset=dict(file=RB, locate=T + r'void ' + Q + r'reset\( std::uint8_t\* buffer \)', rules=LAYOUT_RULES),
        ),
            code=HEAD + PDU_LENGTH_CODE + SETUP + r'''
/* a record sits at end_: header readable, length byte W_len, record inside the storage */
#define REC_AT_END(buffer) (W_e + 2 <= Size && (buffer)[W_e + 1] == W_len && W_e + OVH + W_len <= Size)
struct rbuf next_end(const struct ring* self, const uint8_t* buffer_ghost)
__CPROVER_requires(SIZE_OK && RING(self, buffer_ghost) && (W_f == W_e || REC_AT_END(buffer_ghost)))
__CPROVER_ensures(W_f == W_e ? (__CPROVER_return_value.buffer == 0 && __CPROVER_return_value.size == 0)
                             : (__CPROVER_return_value.buffer == buffer_ghost + W_e && __CPROVER_return_value.size == OVH + W_len))
__CPROVER_assigns()
{{next_end}}
uint8_t G_before;
void pop_end(struct ring* self, uint8_t* buffer)
__CPROVER_requires(SIZE_OK && RING(self, buffer) && W_f != W_e && REC_AT_END(buffer))
__CPROVER_requires(W_j < Size && G_before == buffer[W_j])
/* the record after the popped one starts right behind it, unless the ring is now empty, or a wrap mark /
   less than two bytes of room follow: then it starts at the beginning of the storage */
__CPROVER_ensures(self->end_ == (
      W_e + OVH + W_len == W_f ? buffer + W_f
    : (W_e + OVH + W_len + 1 >= Size || buffer[W_e + OVH + W_len + 1] == 0) ? buffer
    : buffer + W_e + OVH + W_len))
__CPROVER_ensures(self->front_ == buffer + W_f && buffer[W_j] == G_before)
__CPROVER_assigns(self->end_)
{{pop_end}}
bool more_than_one(const struct ring* self, const uint8_t* buffer_ghost)
__CPROVER_requires(SIZE_OK && RING(self, buffer_ghost) && (W_f == W_e || REC_AT_END(buffer_ghost)))
__CPROVER_ensures(__CPROVER_return_value == (W_f != W_e && W_e + OVH + W_len != W_f))
__CPROVER_assigns()
{{more}}
void reset(struct ring* self, uint8_t* buffer)
__CPROVER_requires(SIZE_OK && __CPROVER_is_fresh(buffer, Size) && __CPROVER_is_fresh(self, sizeof(struct ring)))
__CPROVER_ensures(self->front_ == buffer && self->end_ == buffer && buffer[1] == 0)
__CPROVER_assigns(self->front_, self->end_, buffer[0], buffer[1])
{{reset}}
void h_next_end(void) { SETUP; next_end(r, b); BT_CANARY(); }
void h_pop_end(void) { SETUP; G_before = nondet_u8(); pop_end(r, b); BT_CANARY(); }
void h_more_than_one(void) { SETUP; more_than_one(r, b); BT_CANARY(); }
void h_reset(void) { SETUP; reset(r, b); BT_CANARY(); }
''', enforce=['next_end', 'pop_end', 'more_than_one', 'reset'], flags_off=['--pointer-overflow-check'], ignore=[r'pointer relation: pointer outside object bounds in self->(front_|end_) \+ \(signed long int\)1'], replay=dict(src='replay/c18_replay.cpp')),
    ]


UNITS = units_for('default', LAYOUTS['default']) + units_for('nrf_encrypted', LAYOUTS['nrf_encrypted'])

META = dict(
    level='proof',
    explanation="pdu_ring_buffer's alloc_front, push_front, next_end, pop_end, more_than_one, reset and both pdu_length overloads are "
                "extracted from ring_buffer.hpp together with the real header()/data_channel_pdu_memory_size() of default_pdu_layout and the "
                "nRF encrypted_pdu_layout, and proved (real pointers into a Size-byte object, Size symbolic) against contracts that state the "
                "ring's allocation rule exactly, that an allocated block lies inside the storage and overlaps no live byte, that push/pop move "
                "front/end to exactly the record boundaries, and that push changes no byte except the two wrap-mark bytes outside every live record.",
    assumptions=["--pointer-overflow-check is off and the 'pointer relation' obligation on that one expression is ignored for push_front/pop_end: 'front_ + 1 < end_of_buffer' forms a pointer two past the end when front_ == buffer + Size (never dereferenced; every dereference is still checked by --pointer-check)",
                 "Size symbolic in [4, 600]; requested sizes <= 4096; in-memory PDU size <= 255 (pdu_length(const P&) returns uint8_t; "
                 "larger sizes cannot be pushed by ll_data_pdu_buffer because max_buffer_size == 251 plus layout overhead)",
                 "FIFO order over more than one step follows from the per-operation contracts by induction over the record chain (not machine-checked)"],
    trusted_base=[],
)
