"""Part of C02: Find Information (handle_find_information_request, collect_handle_uuid_tuples of server.hpp)."""
import os, sys
sys.path.insert(0, os.path.dirname(__file__))
from common import BITS_EXTRACTS, BITS_CODE
SRV = 'bluetoe/server.hpp'
AH = 'bluetoe/attribute_handle.hpp'
TS = r'template < typename \.\.\. Options >\s*'
PRE = [(r'check_size_and_handle_range< 5u >\( input, in_size, output, out_size, starting_handle, ending_handle \)', 'check_size_and_handle_range5( 5, input, in_size, output, out_size, &starting_handle, &ending_handle )', '*'),
       (r'handle_mapping::(first_index_by_handle|handle_by_index)\(', r'\1(', '*'),
       (r'attribute_at\( start_index \)\.uuid', 'attribute_uuid( start_index )', '*'), (r'bits\( details::gatt_uuids::internal_128bit_uuid \)', 'INTERNAL_128BIT_UUID', '*'),
       (r'return error_response\( \*input, details::att_error_codes::attribute_not_found, starting_handle, output, out_size \);', '{ error_response5( *input, 0x0a, starting_handle, output, out_size ); return; }', '*'),
       (r'bits\( details::att_opcodes::find_information_response \)', '0x05', '*'),
       (r'bits\(\s*only_16_bit_uuids\s*\? details::att_uuid_format::short_16bit\s*: details::att_uuid_format::long_128bit \)', '( only_16_bit_uuids ? 0x01 : 0x02 )', '*'),
       (r'write_ptr \+ out_size', 'write_ptr + *out_size', '*'), (r'out_size = write_ptr - &output\[ 0 \];', '*out_size = (size_t)( write_ptr - &output[ 0 ] );', '*'),
       (r'details::invalid_attribute_index', 'invalid_attribute_index', '*'),
       (r'const details::attribute attr = attribute_at\( start \);', 'const uint16_t attr_uuid = attribute_uuid( start );', '*'), (r'\battr\.uuid\b', 'attr_uuid', '*'),
       (r'details::write_handle\(', 'write_handle(', '*'), (r'details::write_16bit_uuid\(', 'write_16bit(', '*'),
       (r'write_128bit_uuid\( out \+ 2, attribute_at\( start - 1 \) \);', 'write_128bit_uuid_of( out + 2, start - 1 );', '*'),
       (r'\bnumber_of_attributes\b', 'G_N', '*'),
       # ghost: remember where the tuple of attribute G_i was written
       (r'out \+= size_per_tuple;', '{ if ( start == G_i ) { G_fi.wrote_i = 1; G_fi.at_off = (size_t)( out - G_out0 ); } } out += size_per_tuple;', '*')]
EX = dict(BITS_EXTRACTS,
    inv_index=dict(kind='expr', file=AH, locate=r'static constexpr std::size_t\s+invalid_attribute_index\s*=(?=\s*~)'),
    handler=dict(file=SRV, locate=TS + r'void server< Options\.\.\. >::handle_find_information_request\( const std::uint8_t\* input, std::size_t in_size, std::uint8_t\* output, std::size_t& out_size \)', pre=PRE),
    collect=dict(file=SRV, locate=TS + r'std::uint8_t\* server< Options\.\.\. >::collect_handle_uuid_tuples\( std::size_t start, std::size_t end, bool only_16_bit, std::uint8_t\* out, std::uint8_t\* out_end \)', pre=PRE,
                 rules=[(r'(for \( ;[^{]*\{)', r'\1 { size_t bt_o = __CPROVER_POINTER_OFFSET(out); BT_GHOST_REBIND(out, G_out0 + bt_o); }', 1),
                        (r'^\{', '{ G_e.start0 = start; G_e.off0 = (size_t)( out - G_out0 ); G_e.room = (size_t)( out_end - G_out0 ); G_e.b0 = G_out0[ 0 ]; G_e.b1 = G_out0[ 1 ]; /* ghost: entry values */', 1)],
                 loops=[dict(header=r'for \( ; \( start <= end \|\| end == invalid_attribute_index \) && start < G_N', contract="""
    __CPROVER_assigns(start, out, G_fi, __CPROVER_object_upto(G_out0, OUT_MAX))
    __CPROVER_loop_invariant(start >= G_e.start0 && start <= G_N && __CPROVER_same_object(out, G_out0) && __CPROVER_POINTER_OFFSET(out) >= G_e.off0 && __CPROVER_POINTER_OFFSET(out) <= G_e.room
        && (__CPROVER_POINTER_OFFSET(out) - G_e.off0) % (only_16_bit ? 4 : 18) == 0 && (G_e.off0 >= 2 ==> (G_out0[0] == G_e.b0 && G_out0[1] == G_e.b1))
        && (G_fi.wrote_i ==> (G_i >= G_e.start0 && G_i < start && (G_i <= end || end == invalid_attribute_index) && ((G_U[G_i] != INTERNAL_128BIT_UUID) == only_16_bit)
                               && G_fi.at_off >= G_e.off0 && G_fi.at_off + (only_16_bit ? 4 : 18) <= __CPROVER_POINTER_OFFSET(out) && G_fi.at_off < OUT_MAX - 1
                               && G_out0[G_fi.at_off] == (G_H[G_i] & 0xff) && G_out0[G_fi.at_off + 1] == (G_H[G_i] >> 8))))
    __CPROVER_decreases(G_N - start)""")]),
)
CODE = BITS_CODE + r'''
#define invalid_attribute_index ((size_t)({{inv_index}}))
#define INTERNAL_128BIT_UUID 1
#ifndef N_MAX
#define N_MAX 16
#endif
#ifndef OUT_MAX
#define OUT_MAX 64
#endif
/* ---- the data base, abstract: N attributes, strictly increasing non-zero handles (C04), a 16 bit type per attribute (1 marks a 128 bit UUID that is found in the attribute in front) */
size_t G_N; uint16_t G_H[N_MAX]; uint16_t G_U[N_MAX]; size_t G_i;
#define TABLE_OK (G_N >= 1 && G_N <= N_MAX && G_i < N_MAX && G_U[0] != INTERNAL_128BIT_UUID)
static inline uint16_t attribute_uuid(size_t i) { __CPROVER_assert(i < G_N, "attribute_at: index in range"); return G_U[i]; }
static inline uint16_t handle_by_index(size_t i) { return i < G_N ? G_H[i] : 0; }
/* first_index_by_handle: contract proved for the real function in C04 */
size_t first_index_by_handle(uint16_t handle)
__CPROVER_requires(TABLE_OK)
__CPROVER_ensures(__CPROVER_return_value == invalid_attribute_index ? (G_H[G_N - 1] < handle && (G_i < G_N ==> G_H[G_i] < handle))
    : (__CPROVER_return_value < G_N && G_H[__CPROVER_return_value] >= handle && (G_i < __CPROVER_return_value ==> G_H[G_i] < handle) && ((G_i >= __CPROVER_return_value && G_i < G_N) ==> G_H[G_i] >= handle)
       && ((G_i > __CPROVER_return_value && G_i < G_N) ==> G_H[G_i] > G_H[__CPROVER_return_value])))
__CPROVER_assigns();
static inline void write_128bit_uuid_of(uint8_t* out, size_t declaration_index) { __CPROVER_assert(declaration_index < G_N, "write_128bit_uuid: declaration index in range"); __CPROVER_havoc_slice(out, 16); }
uint8_t* G_out0; struct e_snap { size_t start0, off0, room; uint8_t b0, b1; } G_e; size_t W_start0, W_off0, W_room; struct fi_rec { bool wrote_i; size_t at_off; } G_fi;
/* one ( handle, type ) tuple per attribute of the index range whose UUID size is the requested one, while a whole tuple fits; here: whatever was written for attribute G_i is in the index range,
   of the right size, and carries that attribute's handle */
uint8_t* collect_handle_uuid_tuples(size_t start, size_t end, bool only_16_bit, uint8_t* out, uint8_t* out_end)
__CPROVER_requires(TABLE_OK && start < G_N && __CPROVER_rw_ok(G_out0, OUT_MAX) && __CPROVER_same_object(out, G_out0) && __CPROVER_same_object(out_end, G_out0) && __CPROVER_POINTER_OFFSET(out) <= __CPROVER_POINTER_OFFSET(out_end)
    && __CPROVER_POINTER_OFFSET(out_end) <= OUT_MAX && !G_fi.wrote_i && WIT(collect_handle_uuid_tuples, start == W_start0 && __CPROVER_POINTER_OFFSET(out) == W_off0 && __CPROVER_POINTER_OFFSET(out_end) == W_room))
__CPROVER_ensures(__CPROVER_same_object(__CPROVER_return_value, G_out0) && __CPROVER_POINTER_OFFSET(__CPROVER_return_value) >= G_e.off0 && __CPROVER_POINTER_OFFSET(__CPROVER_return_value) <= G_e.room)
__CPROVER_ensures(G_fi.wrote_i ==> (G_i >= G_e.start0 && G_i < G_N && (G_i <= end || end == invalid_attribute_index) && ((G_U[G_i] != INTERNAL_128BIT_UUID) == only_16_bit)
    && G_fi.at_off >= G_e.off0 && G_fi.at_off + 2 <= __CPROVER_POINTER_OFFSET(__CPROVER_return_value) && G_fi.at_off < OUT_MAX - 1 && G_out0[G_fi.at_off] == (G_H[G_i] & 0xff) && G_out0[G_fi.at_off + 1] == (G_H[G_i] >> 8)))
/* nothing in front of the first tuple is touched */
__CPROVER_ensures(G_e.off0 >= 2 ==> (G_out0[0] == __CPROVER_old(G_out0[0]) && G_out0[1] == __CPROVER_old(G_out0[1])))
__CPROVER_assigns(G_fi, G_e, __CPROVER_object_upto(G_out0, OUT_MAX))
{{collect}}
/* ---- the request handler */
struct e_rec { size_t calls; uint8_t code; uint16_t handle; } G_er;
bool W_csr_ok; uint16_t W_sh, W_eh;
bool check_size_and_handle_range5(size_t A, const uint8_t* input, size_t in_size, uint8_t* output, size_t* out_size, uint16_t* starting_handle, uint16_t* ending_handle)
__CPROVER_requires(TABLE_OK)
/* contract proved for the real function in unit read_by_type: passes iff the size is A, 0 < start <= end and an attribute with handle >= start exists; otherwise an Error Response was written */
__CPROVER_ensures(__CPROVER_return_value == W_csr_ok && (W_csr_ok ==> (*starting_handle == W_sh && *ending_handle == W_eh && W_sh != 0 && W_sh <= W_eh && in_size == A && G_H[G_N - 1] >= W_sh && *out_size == __CPROVER_old(*out_size))))
__CPROVER_ensures(!W_csr_ok ==> (*out_size == 5 && output[0] == 0x01))
__CPROVER_assigns(*starting_handle, *ending_handle, *out_size, __CPROVER_object_upto(output, 5));
static inline void error_response5(uint8_t opcode, uint8_t code, uint16_t handle, uint8_t* output, size_t* out_size) { ++G_er.calls; G_er.code = code; G_er.handle = handle; output[0] = 0x01; output[1] = opcode; output[2] = (uint8_t)handle; output[3] = (uint8_t)(handle >> 8); output[4] = code; *out_size = 5; }
size_t W_out_size;
#define IS_RESPONSE (*out_size >= 2 && output[0] == 0x05)
void handle_find_information_request(const uint8_t* input, size_t in_size, uint8_t* output, size_t* out_size)
__CPROVER_requires(TABLE_OK && in_size >= 1 && in_size <= 8 && __CPROVER_is_fresh(input, 8) && __CPROVER_is_fresh(out_size, sizeof(size_t)) && *out_size == W_out_size && W_out_size >= 23 && W_out_size <= OUT_MAX
    && __CPROVER_rw_ok(G_out0, OUT_MAX) && output == G_out0 && !G_fi.wrote_i && G_er.calls == 0)
/* C02: a tuple is only returned for an attribute whose handle lies inside start..end (and carries that handle); all tuples have the UUID size of the first attribute of the range */
__CPROVER_ensures((IS_RESPONSE && G_fi.wrote_i) ==> (G_i < G_N && G_H[G_i] >= W_sh))
__CPROVER_ensures((IS_RESPONSE && G_fi.wrote_i) ==> (G_i < G_N && G_H[G_i] <= W_eh))
__CPROVER_ensures((IS_RESPONSE && G_fi.wrote_i) ==> (G_fi.at_off >= 2 && G_fi.at_off < OUT_MAX - 1 && G_fi.at_off + 2 <= *out_size
    && output[G_fi.at_off] == (G_H[G_i] & 0xff) && output[G_fi.at_off + 1] == (G_H[G_i] >> 8)))
__CPROVER_ensures((IS_RESPONSE && G_fi.wrote_i) ==> (G_i < G_N && output[1] == ((G_U[G_i] != INTERNAL_128BIT_UUID) ? 0x01 : 0x02)))
__CPROVER_ensures(*out_size <= W_out_size)
__CPROVER_ensures(IS_RESPONSE || (*out_size == 5 && output[0] == 0x01))
/* Attribute Not Found from here: only when every attribute lies behind the ending handle */
__CPROVER_ensures((W_csr_ok && G_er.calls == 1) ==> (G_er.code == 0x0a && G_er.handle == W_sh && (G_i < G_N ==> !(G_H[G_i] >= W_sh && G_H[G_i] <= W_eh))))
__CPROVER_assigns(*out_size, G_fi, G_er, G_e, __CPROVER_object_upto(G_out0, OUT_MAX))
{{handler}}
#define SETUP G_N = nondet_size(); G_i = nondet_size(); W_start0 = nondet_size(); W_off0 = nondet_size(); W_room = nondet_size(); W_csr_ok = nondet_bool(); W_sh = nondet_u16(); W_eh = nondet_u16(); W_out_size = nondet_size(); \
  static uint8_t outbuf[OUT_MAX]; G_out0 = outbuf; G_fi.wrote_i = 0; G_er.calls = 0; BT_KNOWN_EXCLUDE(); \
  /* strictly increasing non-zero handles (the ghost pair G_i / any neighbour) */ __CPROVER_assume(G_N >= 1 && G_N <= N_MAX); for (size_t k = 0; k < N_MAX; ++k) __CPROVER_assume(G_H[k] != 0 && (k + 1 >= N_MAX || G_H[k] < G_H[k + 1]));
void h_collect_handle_uuid_tuples(void) { SETUP; __CPROVER_assume(W_off0 <= W_room && W_room <= OUT_MAX); collect_handle_uuid_tuples(W_start0, nondet_size(), nondet_bool(), G_out0 + W_off0, G_out0 + W_room); BT_CANARY(); }
void h_handle_find_information_request(void) { SETUP; uint8_t* in; size_t* os; handle_find_information_request(in, nondet_size(), G_out0, os); BT_CANARY(); }
'''
UNITS = [dict(name='find_information', extracts=EX, code=CODE, object_bits=10, thorough_defines=['N_MAX=64', 'OUT_MAX=256'], replay=dict(src='replay/c02_replay.cpp', cxxflags=['-DNDEBUG']), enforce=['collect_handle_uuid_tuples', 'handle_find_information_request'],
              replace=['first_index_by_handle', 'check_size_and_handle_range5'])]

