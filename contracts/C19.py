"""C19 L2CAP fragmentation and reassembly are exact and memory safe."""
import os, sys
sys.path.insert(0, os.path.dirname(__file__))
from common import BITS_EXTRACTS, BITS_CODE
SDU = 'bluetoe/link_layer/include/bluetoe/ll_l2cap_sdu_buffer.hpp'
BUF = 'bluetoe/link_layer/include/bluetoe/buffer.hpp'
DL = 'bluetoe/link_layer/include/bluetoe/default_pdu_layout.hpp'
CLS = r'class ll_l2cap_sdu_buffer : public BufferedRadio'
T = r'template < class BufferedRadio, class ReceiveCallbacks, std::size_t MTUSize >\s*'
Q = r'll_l2cap_sdu_buffer< BufferedRadio, ReceiveCallbacks, MTUSize >::'

CONSTS = {k: dict(kind='expr', file=SDU, scope=CLS, locate=r'static constexpr std::\w+\s+%s\s*=' % k)
          for k in ('pdu_type_mask', 'pdu_type_link_layer', 'pdu_type_start', 'pdu_type_continuation', 'l2cap_header_size')}
EX = dict(BITS_EXTRACTS, **CONSTS,
    rbuf_fields=dict(kind='fields', file=BUF, scope=r'struct read_buffer\b', names=['buffer', 'size']),
    fields=dict(kind='fields', file=SDU, scope=CLS,
                names=['receive_buffer_', 'receive_size_', 'receive_buffer_used_', 'transmit_buffer_', 'transmit_size_', 'transmit_buffer_used_'],
                rules=[(r'\[ MTUSize \+ overall_overhead \]', '[CAP_MAX]', '*')]),
)
HEAD = BITS_CODE + r'''
#define pdu_type_mask ((uint16_t)({{pdu_type_mask}}))
#define pdu_type_link_layer ((uint16_t)({{pdu_type_link_layer}}))
#define pdu_type_start ((uint16_t)({{pdu_type_start}}))
#define pdu_type_continuation ((uint16_t)({{pdu_type_continuation}}))
#define l2cap_header_size ((size_t)({{l2cap_header_size}}))
struct rbuf { {{rbuf_fields}} };
#ifndef MTU_MAX
#define MTU_MAX 48
#endif
#define CAP_MAX (MTU_MAX + 2 + 1 + 4)
size_t G_MTUSize, G_layout_overhead;      /* template parameter MTUSize and BufferedRadio::layout_overhead (0 default layout, 1 nRF encrypted) */
#define MTUSize G_MTUSize
#define header_size ((size_t)2)           /* BufferedRadio::header_size (ll_data_pdu_buffer.hpp: 2) */
#define layout_overhead G_layout_overhead
#define overall_overhead (header_size + layout_overhead + l2cap_header_size)
#define ll_overhead (header_size + layout_overhead)
#define CAP (MTUSize + overall_overhead)  /* the declared dimension of receive_buffer_ / transmit_buffer_ */
struct sdu { {{fields}} };
size_t W_MTU, W_lo, W_used, W_n, W_j, W_k; uint16_t W_rsize;
size_t G_j, G_k; uint8_t G_at_k;
#define CFG_OK   (G_MTUSize >= 24 && G_MTUSize <= MTU_MAX && G_MTUSize == W_MTU && G_layout_overhead <= 1 && G_layout_overhead == W_lo)
/* reassembly invariant: what is stored plus what is still expected fits the buffer */
#define RX_INV(self) ((self)->receive_buffer_used_ <= CAP && (size_t)(self)->receive_size_ <= CAP - (self)->receive_buffer_used_)
#define SDU_OK(self) (__CPROVER_is_fresh(self, sizeof(struct sdu)) && (self)->receive_buffer_used_ == W_used && (self)->receive_size_ == W_rsize)
'''
ADD_DECL = r'''
#define ADD_N ((size_t)(end - begin))
#define ADD_TAKE BT_MIN(ADD_N, (size_t)__CPROVER_old(self->receive_size_))
void add_to_receive_buffer(struct sdu* self, const uint8_t* begin, const uint8_t* end)
__CPROVER_requires(__CPROVER_rw_ok(self, sizeof(*self)) && RX_INV(self))
__CPROVER_requires(__CPROVER_same_object(begin, end) && begin <= end && (size_t)(end - begin) <= 260 && __CPROVER_r_ok(begin, (size_t)(end - begin)))
__CPROVER_requires(G_j < 260 && G_k < CAP_MAX && G_pre_j == G_j && G_pre_j2 == ll_overhead && G_pre_j3 == ll_overhead + 1)
__CPROVER_requires(WIT(add_to_receive_buffer, CFG_OK && self->receive_buffer_used_ == W_used && self->receive_size_ == W_rsize && (size_t)(end - begin) == W_n))
/* takes what is still expected, never more */
__CPROVER_ensures(self->receive_buffer_used_ == __CPROVER_old(self->receive_buffer_used_) + ADD_TAKE)
__CPROVER_ensures(self->receive_size_ == __CPROVER_old(self->receive_size_) - ADD_TAKE && RX_INV(self))
/* the accepted bytes are appended unchanged, what was stored before is untouched */
__CPROVER_ensures(G_j < ADD_TAKE ==> self->receive_buffer_[__CPROVER_old(self->receive_buffer_used_) + G_j] == begin[G_j])
__CPROVER_ensures(G_k < __CPROVER_old(self->receive_buffer_used_) ==> self->receive_buffer_[G_k] == __CPROVER_old(self->receive_buffer_[G_k]))
/* the two bytes of the L2CAP length field of a start fragment (fixed positions) */
__CPROVER_ensures((__CPROVER_old(self->receive_buffer_used_) == 0 && ll_overhead + 1 < ADD_TAKE) ==>
    (self->receive_buffer_[ll_overhead] == begin[ll_overhead] && self->receive_buffer_[ll_overhead + 1] == begin[ll_overhead + 1]))
__CPROVER_ensures(__CPROVER_old(self->receive_buffer_used_) >= ll_overhead + 2 ==>
    (self->receive_buffer_[ll_overhead] == __CPROVER_old(self->receive_buffer_[ll_overhead]) && self->receive_buffer_[ll_overhead + 1] == __CPROVER_old(self->receive_buffer_[ll_overhead + 1])))
/* frame: nothing outside the declared receive buffer (first CAP bytes) and the two counters is written */
__CPROVER_assigns(__CPROVER_object_upto(self->receive_buffer_, CAP), self->receive_size_, self->receive_buffer_used_)
'''
ADD = dict(file=SDU, locate=T + r'void ' + Q + r'add_to_receive_buffer\( const std::uint8_t\* begin, const std::uint8_t\* end \)',
           rules=[(r'std::copy\( begin, (begin \+ copy_size|end), &self->receive_buffer_\[ self->receive_buffer_used_ \] \)',
                   lambda m: 'bt_copy_u8( begin, (size_t)(( %s ) - begin), &self->receive_buffer_[ self->receive_buffer_used_ ] )' % m.group(1), 1)])
SETUP = r'''
#define SETUP struct sdu* s; uint8_t* b; uint8_t* e; W_MTU = nondet_size(); G_MTUSize = W_MTU; W_lo = nondet_size(); G_layout_overhead = W_lo; W_used = nondet_size(); \
   W_n = nondet_size(); W_rsize = nondet_u16(); W_j = nondet_size(); W_k = nondet_size(); G_j = W_j; G_k = W_k; G_pre_j = G_j; G_pre_j2 = nondet_size(); G_pre_j3 = nondet_size(); G_at_k = nondet_u8(); BT_KNOWN_EXCLUDE()
'''

UNITS = [
    dict(name='add_to_receive_buffer', defines=['BT_NEED_COPY', 'BT_BYTES_MAX=300'],
         extracts=dict(EX, add=ADD),
         code=HEAD + ADD_DECL + '{{add}}' + SETUP + r'''
void h_add_to_receive_buffer(void) { SETUP; struct sdu obj; uint8_t in[261]; __CPROVER_assume(CFG_OK && W_n <= 260);
  obj.receive_buffer_used_ = W_used; obj.receive_size_ = W_rsize; add_to_receive_buffer(&obj, in, in + W_n); BT_CANARY(); }
''', enforce=['add_to_receive_buffer'], replace=['bt_copy_u8'], replay=dict(src='replay/c19_replay.cpp')),
    dict(name='prelude_copy', extracts={}, defines=['BT_NEED_COPY', 'BT_COPY_BODY', 'BT_BYTES_MAX=300'],
         code=r'''
void h_bt_copy_u8(void) { uint8_t a[300]; uint8_t b[300]; size_t n = nondet_size(); G_pre_j = nondet_size(); G_pre_j2 = nondet_size(); G_pre_j3 = nondet_size(); __CPROVER_assume(n <= 300); bt_copy_u8(a, n, b); BT_CANARY(); }
''', enforce=['bt_copy_u8'], extra_loops=1),
]

NRF = 'bluetoe/bindings/nordic/include/bluetoe/nrf.hpp'
RX_EX = dict(EX,
    wbuf_fields=dict(kind='fields', file=BUF, scope=r'struct write_buffer\b', names=['buffer', 'size']),
    lay_hdr_wb=dict(file=DL, scope=r'struct layout_base\b', locate=r'static std::uint16_t header\( const write_buffer& pdu \)',
                    rules=[(r'Base::data_channel_pdu_memory_size\( 0 \)', 'll_overhead', 1), (r'Base::header\( pdu\.buffer \)', 'read_16bit( pdu.buffer )', 1)], no_members=True),
    body_default=dict(file=DL, scope=r'struct default_pdu_layout\s*:', locate=r'static std::pair< const std::uint8_t\*, const std::uint8_t\* > body\( const write_buffer& pdu \)',
                      rules=[(r'return \{', 'return (struct pair_cptr){', 1)], no_members=True),
    body_nrf=dict(file=NRF, scope=r'struct encrypted_pdu_layout\s*:', locate=r'static std::pair< const std::uint8_t\*, const std::uint8_t\* > body\( const link_layer::write_buffer& pdu \)',
                  rules=[(r'return \{', 'return (struct pair_cptr){', 1)], no_members=True),
    next=dict(file=SDU, locate=T + r'write_buffer ' + Q + r'next_ll_l2cap_received\(\)',
              rules=[(r'self->next_received\(\)', 'next_received()', 2), (r'self->free_received\(\)', 'free_received()', 1),
                     (r'layout::header\( pdu \)', 'layout_header_wb( pdu )', 1), (r'layout::body\( pdu \)', 'layout_body_wb( pdu )', 1),
                     (r'\(\(ReceiveCallbacks\*\)\( this \)\)->pdu_receive_data_callback\( pdu \)', 'pdu_receive_data_callback( pdu )', 1),
                     (r'bluetoe::details::read_16bit', 'read_16bit', 1), (r'try_send_pdus\(\)', 'try_send_pdus( self )', 1),
                     (r'add_to_receive_buffer\(', 'add_to_receive_buffer( self,', 2),
                     (r'return \{', 'return (struct wbuf){', 3),
                     (r'(pdu = next_received\(\) \)\s*\{)', r'\1 BT_GHOST_REBIND( pdu.buffer, (const uint8_t*)G_ring_mem );', 1)],
              loops=[dict(header=r'for \( __auto_type pdu = next_received\(\)', contract="""
    __CPROVER_assigns(pdu, __CPROVER_object_upto(self->receive_buffer_, CAP), self->receive_size_, self->receive_buffer_used_, G_ring_count, __CPROVER_object_whole(G_ring_mem))
    __CPROVER_loop_invariant(RX_INV(self) && LEN_INV(self) && (pdu.size != 0 ==> (G_ring_count >= 1 && PDU_OK(pdu))))
    __CPROVER_loop_invariant(!(self->receive_buffer_used_ != 0 && self->receive_size_ == 0))
    __CPROVER_decreases(G_ring_count)""")]),
    free=dict(file=SDU, locate=T + r'void ' + Q + r'free_ll_l2cap_received\(\)', rules=[(r'self->free_received\(\)', 'free_received()', 1)]),
)
RX_CODE = HEAD + r"""
struct wbuf { {{wbuf_fields}} };
struct pair_cptr { const uint8_t* first; const uint8_t* second; };
uint16_t layout_header_wb(struct wbuf pdu) {{lay_hdr_wb}}
struct pair_cptr body_default(struct wbuf pdu) {{body_default}}
struct pair_cptr body_nrf(struct wbuf pdu) {{body_nrf}}
/* layout::body for the layout the radio was configured with (default: overhead 0, nRF encrypted: overhead 1) */
struct pair_cptr layout_body_wb(struct wbuf pdu) { return G_layout_overhead ? body_nrf(pdu) : body_default(pdu); }

/* ---- the buffered radio below (ll_data_pdu_buffer; contracts C15/C18): a FIFO of received PDUs */
size_t G_ring_count;                 /* ghost: number of PDUs in the receive ring */
size_t W_pdu_size; uint8_t W_pdu[300]; size_t W_ring;
#define PDU_OK(p) ((p).size >= ll_overhead && (p).size <= ll_overhead + 255 && (p).buffer == G_ring_mem \
                   && (p).size == ll_overhead + (size_t)G_ring_mem[1])
uint8_t G_ring_mem[300];             /* the memory of the receive ring's oldest PDU (content arbitrary at every call) */
struct wbuf next_received(void)
__CPROVER_ensures(G_ring_count == 0 ? (__CPROVER_return_value.size == 0 && __CPROVER_return_value.buffer == 0)
                                    : (__CPROVER_return_value.buffer == G_ring_mem && PDU_OK(__CPROVER_return_value)))
__CPROVER_assigns(__CPROVER_object_whole(G_ring_mem));
void free_received(void)
__CPROVER_requires(G_ring_count >= 1)
__CPROVER_ensures(G_ring_count == __CPROVER_old(G_ring_count) - 1)
__CPROVER_assigns(G_ring_count);
void pdu_receive_data_callback(struct wbuf pdu) __CPROVER_requires(1) __CPROVER_ensures(1) __CPROVER_assigns();
void try_send_pdus(struct sdu* self)
__CPROVER_requires(__CPROVER_rw_ok(self, sizeof(*self)))
__CPROVER_ensures(1)
__CPROVER_assigns(self->transmit_size_, self->transmit_buffer_used_);

/* while an SDU is being reassembled: stored + expected == announced L2CAP length + overhead */
#define ANNOUNCED(self) (((size_t)(self)->receive_buffer_[ll_overhead] | ((size_t)(self)->receive_buffer_[ll_overhead + 1] << 8)) + overall_overhead)
#define LEN_INV(self) ((self)->receive_buffer_used_ == 0 ? (self)->receive_size_ == 0 \
       : ((self)->receive_buffer_used_ >= ll_overhead + 2 && (self)->receive_buffer_used_ + (size_t)(self)->receive_size_ == ANNOUNCED(self)))
""" + ADD_DECL + r""";
/* What a (possibly malicious) central can make the reassembly do.  Returned is: nothing; a link layer control PDU or an
   unfragmented L2CAP PDU straight from the radio; or the reassembly buffer - only when the SDU is complete, with exactly the
   length its L2CAP header announces. */
struct wbuf next_ll_l2cap_received(struct sdu* self)
__CPROVER_requires(CFG_OK && SDU_OK(self) && RX_INV(self) && LEN_INV(self) && G_ring_count == W_ring && G_ring_count <= 1000)
__CPROVER_requires(G_j < 260 && G_k < CAP_MAX && G_pre_j == G_j && G_pre_j2 == ll_overhead && G_pre_j3 == ll_overhead + 1)
__CPROVER_ensures(RX_INV(self))
__CPROVER_ensures(self->receive_buffer_used_ == 0 ==> self->receive_size_ == 0)
__CPROVER_ensures(self->receive_buffer_used_ != 0 ==> self->receive_buffer_used_ >= ll_overhead + 2)
__CPROVER_ensures(self->receive_buffer_used_ != 0 ==> self->receive_buffer_used_ + (size_t)self->receive_size_ == ANNOUNCED(self))
__CPROVER_ensures(__CPROVER_return_value.buffer == self->receive_buffer_ ==>
    (self->receive_size_ == 0 && self->receive_buffer_used_ != 0 && __CPROVER_return_value.size == self->receive_buffer_used_
     && __CPROVER_return_value.size == ANNOUNCED(self) && __CPROVER_return_value.size <= CAP))
__CPROVER_ensures((__CPROVER_return_value.buffer != self->receive_buffer_ && __CPROVER_return_value.size != 0) ==>
    (PDU_OK(__CPROVER_return_value) && ((read_16bit(__CPROVER_return_value.buffer) & pdu_type_mask) == pdu_type_link_layer
       || ((read_16bit(__CPROVER_return_value.buffer) & pdu_type_mask) == pdu_type_start
           && __CPROVER_return_value.size >= overall_overhead
           && (size_t)read_16bit(__CPROVER_return_value.buffer + ll_overhead) + overall_overhead == __CPROVER_return_value.size))))
/* an unfragmented L2CAP PDU is a new SDU: nothing of an incomplete one stays behind (a later continuation fragment must not complete it) */
__CPROVER_ensures((__CPROVER_return_value.buffer != self->receive_buffer_ && __CPROVER_return_value.size != 0 && (read_16bit(__CPROVER_return_value.buffer) & pdu_type_mask) == pdu_type_start)
    ==> (self->receive_buffer_used_ == 0 && self->receive_size_ == 0))
/* an SDU that is complete stays available until it is freed; nothing is taken from the radio meanwhile */
__CPROVER_ensures((W_used != 0 && W_rsize == 0) ==> (__CPROVER_return_value.buffer == self->receive_buffer_ && G_ring_count == W_ring))
__CPROVER_assigns(__CPROVER_object_upto(self->receive_buffer_, CAP), self->receive_size_, self->receive_buffer_used_, G_ring_count,
                  self->transmit_size_, self->transmit_buffer_used_, __CPROVER_object_whole(G_ring_mem))
{{next}}
/* frees what the last next_ll_l2cap_received() handed out (its postcondition tells which): the reassembly buffer iff it holds a complete SDU - then nothing is taken from the radio; otherwise
   the PDU at the head of the radio's queue (an LL control PDU may arrive between the fragments of an SDU) - then a reassembly that is under way goes on untouched */
#define SDU_COMPLETE (W_used != 0 && W_rsize == 0)
void free_ll_l2cap_received(struct sdu* self)
__CPROVER_requires(CFG_OK && SDU_OK(self) && RX_INV(self) && LEN_INV(self) && G_ring_count == W_ring && (SDU_COMPLETE || G_ring_count >= 1))
__CPROVER_ensures(SDU_COMPLETE ? (self->receive_buffer_used_ == 0 && self->receive_size_ == 0 && G_ring_count == W_ring)
                               : (self->receive_buffer_used_ == W_used && self->receive_size_ == W_rsize && G_ring_count == W_ring - 1))
__CPROVER_assigns(self->receive_size_, self->receive_buffer_used_, G_ring_count)
{{free}}
""" + SETUP + r"""
void h_next_ll_l2cap_received(void) { SETUP; W_ring = nondet_size(); G_ring_count = W_ring; next_ll_l2cap_received(s); BT_CANARY(); }
void h_free_ll_l2cap_received(void) { SETUP; W_ring = nondet_size(); G_ring_count = W_ring; free_ll_l2cap_received(s); BT_CANARY(); }
"""
UNITS.append(dict(name='reassembly', defines=['BT_NEED_COPY', 'BT_BYTES_MAX=300'], extracts=RX_EX, code=RX_CODE, replay=dict(src='replay/c19_seq_replay.cpp'),
                  enforce=['next_ll_l2cap_received', 'free_ll_l2cap_received'],
                  replace=['add_to_receive_buffer', 'next_received', 'free_received', 'pdu_receive_data_callback', 'try_send_pdus'],
                  timeout=900, object_bits=10))

# ---------------------------------------------------------------------------------------------------------------
# transmit side: fragmentation
TX_EX = dict(EX,
    lay_hdr_set=dict(file=DL, scope=r'struct layout_base\b', locate=r'static void header\( const read_buffer& pdu, std::uint16_t header_value \)',
                     rules=[(r'Base::data_channel_pdu_memory_size\( 0 \)', 'll_overhead', 1), (r'Base::header\( pdu\.buffer, header_value \)', 'write_16bit( pdu.buffer, header_value )', 1)], no_members=True),
    body_default=dict(file=DL, scope=r'struct default_pdu_layout\s*:', locate=r'static std::pair< std::uint8_t\*, std::uint8_t\* > body\( const read_buffer& pdu \)',
                      rules=[(r'return \{', 'return (struct pair_ptr){', 1)], no_members=True),
    body_nrf=dict(file=NRF, scope=r'struct encrypted_pdu_layout\s*:', locate=r'static std::pair< std::uint8_t\*, std::uint8_t\* > body\( const link_layer::read_buffer& pdu \)',
                  rules=[(r'return \{', 'return (struct pair_ptr){', 1)], no_members=True),
    send=dict(file=SDU, locate=T + r'void ' + Q + r'try_send_pdus\(\)',
              rules=[(r'self->allocate_transmit_buffer\(', 'allocate_transmit_buffer(', 1), (r'self->max_tx_size\(\)', 'max_tx_size()', 1),
                     (r'self->commit_transmit_buffer\( buffer \)', 'commit_transmit_buffer( buffer )', 1),
                     (r'layout::header\( buffer,', 'layout_header_set( buffer,', 2), (r'layout::body\( buffer \)', 'layout_body_rb( buffer )', 1),
                     (r'std::copy\( &self->transmit_buffer_\[ 0 \], &self->transmit_buffer_\[ copy_size \], buffer\.buffer \)',
                      '( G_pre_j = G_p, bt_copy_u8( &self->transmit_buffer_[ 0 ], copy_size, buffer.buffer ) )', 1),
                     (r'std::copy\( &self->transmit_buffer_\[ self->transmit_buffer_used_ \], &self->transmit_buffer_\[ self->transmit_buffer_used_\+ copy_size \], body\.first \)',
                      '( G_pre_j = G_p - self->transmit_buffer_used_, bt_copy_u8( &self->transmit_buffer_[ self->transmit_buffer_used_ ], copy_size, body.first ) )', 1),
                     (r'std::distance\( body\.first, body\.second \)', '( body.second - body.first )', 1)],
              loops=[dict(header=r'while \( self->transmit_size_ \)', contract="""
    __CPROVER_assigns(self->transmit_size_, self->transmit_buffer_used_, G_sent, G_frags, G_pre_j, __CPROVER_object_whole(G_tx_mem))
    __CPROVER_loop_invariant(TX_INV(self) && self->transmit_buffer_[G_p] == G_byte_p)
    __CPROVER_decreases(self->transmit_size_)""")]),
    alloc=dict(file=SDU, locate=T + r'read_buffer ' + Q + r'allocate_l2cap_transmit_buffer\( std::size_t payload_size \)',
               rules=[(r'return \{', 'return (struct rbuf){', 2)]),
    commit=dict(file=SDU, locate=T + r'void ' + Q + r'commit_l2cap_transmit_buffer\( read_buffer buffer \)',
                rules=[(r'layout::body\( buffer \)', 'layout_body_rb( buffer )', 1), (r'bluetoe::details::read_16bit', 'read_16bit', 1), (r'try_send_pdus\(\)', 'try_send_pdus( self )', 1)]),
    ctor=dict(file=SDU, locate=T + Q + r'll_l2cap_sdu_buffer\(\)', init_list=True),
)
TX_CODE = HEAD + r"""
struct pair_ptr { uint8_t* first; uint8_t* second; };
void layout_header_set(struct rbuf pdu, uint16_t header_value) {{lay_hdr_set}}
struct pair_ptr body_default(struct rbuf pdu) {{body_default}}
struct pair_ptr body_nrf(struct rbuf pdu) {{body_nrf}}
struct pair_ptr layout_body_rb(struct rbuf pdu) { return G_layout_overhead ? body_nrf(pdu) : body_default(pdu); }

/* ---- ghost view of what has been handed to the link layer so far */
size_t G_total;      /* transmit_buffer_used_ + transmit_size_ while an SDU is pending (== l2cap length + overall_overhead) */
size_t G_sent;       /* SDU bytes (L2CAP header + payload) committed so far */
size_t G_frags;      /* 0: no fragment of the pending SDU committed so far, 1: at least one */
size_t G_p;          /* ghost position in transmit_buffer_ (stands for every SDU byte) */
uint8_t G_byte_p;    /* the SDU byte at that position */
size_t W_max_tx, W_alloc_ok, W_tsize, W_tused, W_payload;
#ifndef TX_MEM
#define TX_MEM 300
#endif
uint8_t G_tx_mem[TX_MEM];   /* memory of the link layer transmit buffer handed out last */

/* ---- buffered radio (ll_data_pdu_buffer, contracts C15/C18) */
size_t max_tx_size(void) __CPROVER_ensures(__CPROVER_return_value == W_max_tx) __CPROVER_assigns();
struct rbuf allocate_transmit_buffer(size_t size)
__CPROVER_requires(size >= ll_overhead && size <= TX_MEM)
__CPROVER_ensures((__CPROVER_return_value.size == 0 && __CPROVER_return_value.buffer == 0)
               || (__CPROVER_return_value.size == size && __CPROVER_pointer_equals(__CPROVER_return_value.buffer, G_tx_mem)))
__CPROVER_assigns(__CPROVER_object_whole(G_tx_mem));
/* the property clause is the precondition every committed fragment has to meet:
   first one typed 'start', all others 'continuation'; length field = bytes carried, within the maximum PDU size;
   the fragment bodies concatenate to the SDU (stated for the ghost SDU byte G_p) */
#define FRAG_LEN(b)   ((size_t)((b).buffer[1]))
#define FRAG_TYPE(b)  ((uint16_t)((b).buffer[0]) & pdu_type_mask)
void commit_transmit_buffer(struct rbuf buffer)
__CPROVER_requires(buffer.buffer == G_tx_mem && buffer.size >= ll_overhead + 1 && buffer.size <= W_max_tx)
__CPROVER_requires(FRAG_TYPE(buffer) == (G_frags == 0 ? pdu_type_start : pdu_type_continuation))
__CPROVER_requires(FRAG_LEN(buffer) >= 1 && ll_overhead + FRAG_LEN(buffer) <= buffer.size && G_sent + FRAG_LEN(buffer) <= G_total - ll_overhead)
__CPROVER_requires((G_p >= ll_overhead + G_sent && G_p < ll_overhead + G_sent + FRAG_LEN(buffer)) ==> buffer.buffer[G_p - G_sent] == G_byte_p)
__CPROVER_ensures(G_sent == __CPROVER_old(G_sent) + FRAG_LEN(buffer) && G_frags == 1)
__CPROVER_assigns(G_sent, G_frags);

/* while an SDU is pending: what is sent and what is left add up; the ghost counters mirror transmit_buffer_used_ */
#define TX_INV(self) (G_total <= CAP && G_total >= overall_overhead && (self)->transmit_buffer_used_ <= G_total && (size_t)(self)->transmit_size_ == G_total - (self)->transmit_buffer_used_ \
    && ((self)->transmit_buffer_used_ == 0 ? (G_sent == 0 && G_frags == 0) : (G_frags >= 1 && (self)->transmit_buffer_used_ >= ll_overhead && G_sent == (self)->transmit_buffer_used_ - ll_overhead)) \
    && ((self)->transmit_size_ == 0 ==> (self)->transmit_buffer_used_ == 0 || (self)->transmit_buffer_used_ == G_total))
#define TX_OK(self) (__CPROVER_is_fresh(self, sizeof(struct sdu)) && (self)->transmit_size_ == W_tsize && (self)->transmit_buffer_used_ == W_tused)

void try_send_pdus(struct sdu* self)
__CPROVER_requires(CFG_OK && __CPROVER_rw_ok(self, sizeof(struct sdu)) && W_max_tx >= 29 && W_max_tx <= 251 && W_max_tx <= TX_MEM)
__CPROVER_requires(self->transmit_size_ == 0 ? self->transmit_buffer_used_ == 0 : TX_INV(self))
__CPROVER_requires(G_p >= ll_overhead && G_p < CAP_MAX && self->transmit_buffer_[G_p] == G_byte_p && G_pre_j2 >= 300 && G_pre_j3 >= 300)
__CPROVER_requires(WIT(try_send_pdus, self->transmit_size_ == W_tsize && self->transmit_buffer_used_ == W_tused))
/* either everything went out (then the buffer is free again) or the rest stays pending, consistently */
__CPROVER_ensures(self->transmit_size_ == 0 ? self->transmit_buffer_used_ == 0 : TX_INV(self))
__CPROVER_ensures((__CPROVER_old(self->transmit_size_) != 0 && self->transmit_size_ == 0) ==> G_sent == G_total - ll_overhead)
__CPROVER_ensures(self->transmit_buffer_[G_p] == G_byte_p)
__CPROVER_assigns(self->transmit_size_, self->transmit_buffer_used_, G_sent, G_frags, G_pre_j, __CPROVER_object_whole(G_tx_mem))
"""
TX_FUNCS = r"""
/* the one SDU buffer is handed out only when no SDU is pending in it */
struct rbuf allocate_l2cap_transmit_buffer(struct sdu* self, size_t payload_size)
__CPROVER_requires(CFG_OK && TX_OK(self) && payload_size <= MTUSize && payload_size == W_payload)
__CPROVER_ensures((W_tused != 0 || W_tsize != 0) ? (__CPROVER_return_value.buffer == 0 && __CPROVER_return_value.size == 0)
                  : (__CPROVER_return_value.buffer == self->transmit_buffer_ && __CPROVER_return_value.size == payload_size + overall_overhead))
__CPROVER_assigns()
{{alloc}}
/* commit: the whole SDU (length from its L2CAP header) becomes pending, nothing sent yet */
void commit_l2cap_transmit_buffer(struct sdu* self, struct rbuf buffer)
__CPROVER_requires(CFG_OK && __CPROVER_rw_ok(self, sizeof(struct sdu)) && self->transmit_size_ == 0 && self->transmit_buffer_used_ == 0 && W_max_tx >= 29 && W_max_tx <= 251)
__CPROVER_requires(buffer.buffer == self->transmit_buffer_ && buffer.size >= overall_overhead && buffer.size <= CAP)
__CPROVER_requires((size_t)self->transmit_buffer_[ll_overhead] + ((size_t)self->transmit_buffer_[ll_overhead + 1] << 8) + overall_overhead <= buffer.size)
__CPROVER_requires(G_total == (size_t)self->transmit_buffer_[ll_overhead] + ((size_t)self->transmit_buffer_[ll_overhead + 1] << 8) + overall_overhead && G_sent == 0 && G_frags == 0)
__CPROVER_requires(G_p >= ll_overhead && G_p < CAP_MAX && self->transmit_buffer_[G_p] == G_byte_p && G_pre_j2 >= 300 && G_pre_j3 >= 300)
__CPROVER_ensures(self->transmit_size_ == 0 ? self->transmit_buffer_used_ == 0 : TX_INV(self))
__CPROVER_ensures(self->transmit_size_ == 0 ==> G_sent == G_total - ll_overhead)
__CPROVER_assigns(self->transmit_size_, self->transmit_buffer_used_, G_sent, G_frags, G_pre_j, __CPROVER_object_whole(G_tx_mem))
{{commit}}
void sdu_ctor(struct sdu* self)
__CPROVER_requires(__CPROVER_is_fresh(self, sizeof(struct sdu)))
__CPROVER_ensures(self->receive_size_ == 0 && self->receive_buffer_used_ == 0 && self->transmit_size_ == 0 && self->transmit_buffer_used_ == 0)
__CPROVER_assigns(self->receive_size_, self->receive_buffer_used_, self->transmit_size_, self->transmit_buffer_used_)
{{ctor}}
"""
TX_SETUP = SETUP + r"""
#define TXSETUP SETUP; W_max_tx = nondet_size(); W_tsize = nondet_size(); W_tused = nondet_size(); W_payload = nondet_size(); G_total = nondet_size(); G_sent = nondet_size(); \
   G_frags = nondet_size(); G_p = nondet_size(); G_byte_p = nondet_u8()
void h_try_send_pdus(void) { TXSETUP; struct sdu obj; __CPROVER_assume(W_tsize <= 65535); obj.transmit_size_ = W_tsize; obj.transmit_buffer_used_ = W_tused; try_send_pdus(&obj); BT_CANARY(); }
void h_allocate_l2cap_transmit_buffer(void) { TXSETUP; allocate_l2cap_transmit_buffer(s, W_payload); BT_CANARY(); }
void h_commit_l2cap_transmit_buffer(void) { TXSETUP; struct sdu obj; struct rbuf rb; obj.transmit_size_ = 0; obj.transmit_buffer_used_ = 0; W_tsize = 0; W_tused = 0; rb.buffer = obj.transmit_buffer_; rb.size = nondet_size(); commit_l2cap_transmit_buffer(&obj, rb); BT_CANARY(); }
void h_sdu_ctor(void) { TXSETUP; sdu_ctor(s); BT_CANARY(); }
"""
UNITS.append(dict(name='fragmentation', defines=['BT_NEED_COPY', 'BT_BYTES_MAX=300'],
                  extracts={k: v for k, v in TX_EX.items() if k not in ('alloc', 'commit', 'ctor')},
                  code=TX_CODE + '{{send}}' + TX_SETUP.replace('void h_allocate_l2cap_transmit_buffer', '//').replace('void h_commit_l2cap_transmit_buffer', '//').replace('void h_sdu_ctor', '//'),
                  enforce=['try_send_pdus'], replace=['allocate_transmit_buffer', 'commit_transmit_buffer', 'max_tx_size', 'bt_copy_u8'],
                  quick_defines=['MTU_MAX=32', 'TX_MEM=96'], thorough_defines=['MTU_MAX=40', 'TX_MEM=160'], timeout=1500, object_bits=10))   # MTU 48 / 300 octets exhausts the 12 GB memory cap of a job
UNITS.append(dict(name='sdu_tx_api', defines=['BT_NEED_COPY', 'BT_BYTES_MAX=300'],
                  extracts={k: v for k, v in TX_EX.items() if k not in ('send',)},
                  code=TX_CODE + ';' + TX_FUNCS + TX_SETUP.replace('void h_try_send_pdus', '//'),
                  enforce=['allocate_l2cap_transmit_buffer', 'commit_l2cap_transmit_buffer', 'sdu_ctor'], replace=['try_send_pdus'],
                  timeout=900, object_bits=10))

META = dict(
    level='proof',
    explanation="ll_l2cap_sdu_buffer<.., MTUSize> (MTUSize > 23): add_to_receive_buffer, next_ll_l2cap_received, free_ll_l2cap_received, try_send_pdus, "
                "allocate_l2cap_transmit_buffer, commit_l2cap_transmit_buffer and the constructor are extracted (with the real layout header/body "
                "functions of both PDU layouts) and proved for symbolic MTUSize. Receive side, for ANY fragment the radio can hand over "
                "(arbitrary type, length, content, in any reassembly state satisfying the invariant): nothing outside the declared receive "
                "buffer and the two counters is written (frame condition), stored + expected bytes never exceed the buffer, the buffer is only "
                "returned when the SDU is complete and then has exactly the length its L2CAP header announces; accepted bytes are appended "
                "unchanged. Transmit side: every committed fragment satisfies (as precondition of the radio's commit) 'first is start, others "
                "continuation, length field = bytes carried, within max PDU size, bodies concatenate to the SDU' (ghost SDU byte); the one SDU "
                "buffer is handed out only when nothing is pending. Both loops are closed by invariants (no unwinding).",
    assumptions=["MTUSize symbolic in [24,48] (quick: fragmentation with MTUSize <= 32 and max PDU size <= 96; thorough: 48 / 251); layout overhead 0 or 1",
                 "the radio below (next_received/free_received/allocate_transmit_buffer/commit_transmit_buffer/max_tx_size) is represented by contracts: "
                 "a received PDU has size = overhead + its length byte (C18 next_end contract), an allocated transmit buffer has exactly the requested size (C18 alloc_front contract)",
                 "two ghost statements are inserted by declared extraction rules: BT_GHOST_REBIND(pdu.buffer, ..) at the top of the receive loop "
                 "(asserted no-op) and the assignment of the ghost index G_pre_j in front of the two std::copy calls of try_send_pdus",
                 "the MTUSize == 23 specialisation only forwards to the radio (not extracted)"],
    trusted_base=["bt_copy_u8 stands for std::copy over bytes (contract enforced on its C body in unit prelude_copy)"],
)
