"""C36 Pairing method selection matches the IO capability mapping."""
IO = 'bluetoe/sm/include/bluetoe/io_capabilities.hpp'
SM = 'bluetoe/sm/include/bluetoe/security_manager.hpp'
SMT = r'template < typename SecurityFunctions, template < class OtherConnectionData > class ConnectionData, typename \.\.\. Options >\s*'

ENUMS = dict(
    io_capabilities=dict(kind='enum', file=IO, name='io_capabilities'),
    legacy_pairing_algorithm=dict(kind='enum', file=IO, name='legacy_pairing_algorithm'),
    lesc_pairing_algorithm=dict(kind='enum', file=IO, name='lesc_pairing_algorithm'),
)
RULES = [(r'details::io_capabilities::', 'io_capabilities_', '*'),
         (r'details::legacy_pairing_algorithm::', 'legacy_pairing_algorithm_', '*'),
         (r'details::lesc_pairing_algorithm::', 'lesc_pairing_algorithm_', '*')]

# Core specification Vol 3 Part H 2.3.5.1: Table 2.7 (local IO capability from input x output capability) and
# Table 2.8 (key generation method from initiator x responder IO capability).  The library is always the responder.
ORACLE = r'''
{{io_capabilities}};
{{legacy_pairing_algorithm}};
{{lesc_pairing_algorithm}};
enum { IN_NONE, IN_YES_NO, IN_KEYBOARD };   /* local input capability  */
enum { OUT_NONE, OUT_NUMERIC };             /* local output capability */
/* Table 2.7 */
static const uint8_t SPEC_IO[2][3] = {
  /* no output      */ { 3 /* NoInputNoOutput */, 3 /* NoInputNoOutput */, 2 /* KeyboardOnly */ },
  /* numeric output */ { 0 /* DisplayOnly */,     1 /* DisplayYesNo */,    4 /* KeyboardDisplay */ } };
/* Table 2.8, rows: responder (local) IO capability, columns: initiator (remote) IO capability
   J just works, D passkey entry: responder displays, initiator inputs, I passkey entry: responder inputs, N numeric comparison */
enum { J, O_, D, I, N };   /* same numbering as the library's enums: just_works, oob, display, input, numeric_comparison */
static const uint8_t SPEC_LEGACY[5][5] = {
  /* DisplayOnly     */ { J, J, D, J, D },
  /* DisplayYesNo    */ { J, J, D, J, D },
  /* KeyboardOnly    */ { I, I, I, J, I },
  /* NoInputNoOutput */ { J, J, J, J, J },
  /* KeyboardDisplay */ { I, I, D, J, I } };
static const uint8_t SPEC_LESC[5][5] = {
  /* DisplayOnly     */ { J, J, D, J, D },
  /* DisplayYesNo    */ { J, N, D, J, N },
  /* KeyboardOnly    */ { I, I, I, J, I },
  /* NoInputNoOutput */ { J, J, J, J, J },
  /* KeyboardDisplay */ { I, N, D, J, N } };
uint8_t W_io;
'''

OUT = {'OUT_NONE': r'struct pairing_no_output\b', 'OUT_NUMERIC': r'struct pairing_numeric_output\b'}
INP = {'IN_NONE': r'const pairing_no_input&', 'IN_YES_NO': r'const pairing_yes_no< \w+, \w+ >&', 'IN_KEYBOARD': r'const pairing_keyboard< \w+, \w+ >&'}

ex = dict(ENUMS)
code = ORACLE
enf = []
for o, scope in OUT.items():
    for i, par in INP.items():
        tag = '%s_%s' % (o.lower(), i.lower())
        ex['get_' + tag] = dict(file=IO, scope=scope, locate=r'static details::io_capabilities get_io_capabilities\( ' + par + r' \)', rules=RULES, no_members=True)
        ex['leg_' + tag] = dict(file=IO, scope=scope, locate=r'static details::legacy_pairing_algorithm select_legacy_pairing_algorithm\( ' + par + r',? details::io_capabilities( io_capability)?\s*\)',
                                rules=RULES, no_members=True)
        ex['lesc_' + tag] = dict(file=IO, scope=scope, locate=r'static details::lesc_pairing_algorithm select_lesc_pairing_algorithm\( ' + par + r',? details::io_capabilities( io_capability)?\s*\)',
                                 rules=RULES, no_members=True)
        code += '''
enum io_capabilities get_%(t)s(void)
__CPROVER_ensures(__CPROVER_return_value == SPEC_IO[%(o)s][%(i)s]) __CPROVER_assigns()
{{get_%(t)s}}
enum legacy_pairing_algorithm leg_%(t)s(enum io_capabilities io_capability)
__CPROVER_requires(io_capability <= 4 && io_capability == W_io)
__CPROVER_ensures(__CPROVER_return_value == SPEC_LEGACY[SPEC_IO[%(o)s][%(i)s]][io_capability]) __CPROVER_assigns()
{{leg_%(t)s}}
enum lesc_pairing_algorithm lesc_%(t)s(enum io_capabilities io_capability)
__CPROVER_requires(io_capability <= 4 && io_capability == W_io)
__CPROVER_ensures(__CPROVER_return_value == SPEC_LESC[SPEC_IO[%(o)s][%(i)s]][io_capability]) __CPROVER_assigns()
{{lesc_%(t)s}}
void h_get_%(t)s(void) { W_io = nondet_u8(); BT_KNOWN_EXCLUDE(); get_%(t)s(); BT_CANARY(); }
void h_leg_%(t)s(void) { W_io = nondet_u8(); BT_KNOWN_EXCLUDE(); leg_%(t)s(W_io); BT_CANARY(); }
void h_lesc_%(t)s(void) { W_io = nondet_u8(); BT_KNOWN_EXCLUDE(); lesc_%(t)s(W_io); BT_CANARY(); }
''' % dict(t=tag, o=o, i=i)
        enf += ['get_' + tag, 'leg_' + tag, 'lesc_' + tag]

UNITS = [
    dict(name='io_matrix', extracts=ex, code=code, enforce=enf),

    dict(name='select',
         extracts=dict(ENUMS,
             leg=dict(file=SM, locate=SMT + r'details::legacy_pairing_algorithm details::security_manager_base< SecurityFunctions, ConnectionData, Options\.\.\. >::legacy_select_pairing_algorithm\( std::uint8_t io_capability, std::uint8_t oob_data_flag, std::uint8_t\s*, bool has_oob_data \)',
                      rules=RULES + [(r'io_device_t::select_legacy_pairing_algorithm\(', 'io_device_select_legacy(', 1)], no_members=True),
             lesc=dict(file=SM, locate=SMT + r'details::lesc_pairing_algorithm details::security_manager_base< SecurityFunctions, ConnectionData, Options\.\.\. >::lesc_select_pairing_algorithm\( std::uint8_t io_capability, std::uint8_t oob_data_flag, std::uint8_t\s*, bool has_oob_data \)',
                       rules=RULES + [(r'io_device_t::select_lesc_pairing_algorithm\(', 'io_device_select_lesc(', 1)], no_members=True)),
         code=ORACLE + r'''
uint8_t W_local_io, W_oob_flag, W_auth_req, W_local_auth; bool W_has_oob;
/* the IO capability matrix of the configured device (proved in unit io_matrix for all six configurations) */
enum legacy_pairing_algorithm io_device_select_legacy(uint8_t io)
__CPROVER_requires(io <= 4) __CPROVER_ensures(__CPROVER_return_value == SPEC_LEGACY[W_local_io][io]) __CPROVER_assigns();
enum lesc_pairing_algorithm io_device_select_lesc(uint8_t io)
__CPROVER_requires(io <= 4) __CPROVER_ensures(__CPROVER_return_value == SPEC_LESC[W_local_io][io]) __CPROVER_assigns();
#define MITM 0x04
#define PRE (io_capability <= 4 && io_capability == W_io && oob_data_flag <= 1 && oob_data_flag == W_oob_flag && auth_req_unnamed == W_auth_req \
             && has_oob_data == W_has_oob && W_local_io <= 4)
/* 2.3.5.1: legacy: OOB when both sides have OOB data; otherwise Just Works when neither side asks for MITM protection;
   otherwise the IO capability mapping */
enum legacy_pairing_algorithm legacy_select_pairing_algorithm(uint8_t io_capability, uint8_t oob_data_flag, uint8_t auth_req_unnamed, bool has_oob_data)
__CPROVER_requires(PRE)
__CPROVER_ensures(__CPROVER_return_value == ((W_oob_flag && W_has_oob) ? legacy_pairing_algorithm_oob_authentication
                   : !((W_auth_req | W_local_auth) & MITM) ? legacy_pairing_algorithm_just_works
                   : SPEC_LEGACY[W_local_io][W_io]))
__CPROVER_assigns()
{{leg}}
/* LE Secure Connections: OOB when either side has OOB data; otherwise as above with the LESC table */
enum lesc_pairing_algorithm lesc_select_pairing_algorithm(uint8_t io_capability, uint8_t oob_data_flag, uint8_t auth_req_unnamed, bool has_oob_data)
__CPROVER_requires(PRE)
__CPROVER_ensures(__CPROVER_return_value == ((W_oob_flag || W_has_oob) ? lesc_pairing_algorithm_oob_authentication
                   : !((W_auth_req | W_local_auth) & MITM) ? lesc_pairing_algorithm_just_works
                   : SPEC_LESC[W_local_io][W_io]))
__CPROVER_assigns()
{{lesc}}
#define SETUP W_io = nondet_u8(); W_local_io = nondet_u8(); W_oob_flag = nondet_u8(); W_auth_req = nondet_u8(); W_local_auth = nondet_u8(); W_has_oob = nondet_bool(); BT_KNOWN_EXCLUDE()
void h_legacy_select_pairing_algorithm(void) { SETUP; legacy_select_pairing_algorithm(W_io, W_oob_flag, W_auth_req, W_has_oob); BT_CANARY(); }
void h_lesc_select_pairing_algorithm(void) { SETUP; lesc_select_pairing_algorithm(W_io, W_oob_flag, W_auth_req, W_has_oob); BT_CANARY(); }
''', enforce=['legacy_select_pairing_algorithm', 'lesc_select_pairing_algorithm'], replace=['io_device_select_legacy', 'io_device_select_lesc'],
         replay=dict(src='replay/c36_replay.cpp', repo_sources=['bluetoe/utility/address.cpp'])),
]
# the unnamed third parameter of the two select functions
for k in ('leg', 'lesc'):
    UNITS[1]['extracts'][k]['allow_unnamed'] = True

META = dict(
    level='proof',
    explanation="All 18 get_io_capabilities / select_legacy_pairing_algorithm / select_lesc_pairing_algorithm overloads of pairing_no_output and "
                "pairing_numeric_output (x no input / yes-no / keyboard) are extracted and compared, for every remote IO capability 0..4, with "
                "the Core specification tables (Vol 3 Part H 2.3.5.1, Tables 2.7 and 2.8) written as constant arrays in the contract; "
                "legacy_/lesc_select_pairing_algorithm are proved against 'OOB first (legacy: both sides, LESC: either side), Just Works "
                "when neither side requests MITM protection, otherwise the table'. Loop-free, complete over the input domain.",
    assumptions=["which input/output option types a security manager is configured with is selected by find_by_meta_type<> (type level)",
                 "remote IO capability <= 4 (larger values are rejected by the pairing request handlers before selection, see C32)"],
    trusted_base=["the transcription of Tables 2.7/2.8 in contracts/C36.py"],
)
