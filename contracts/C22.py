"""C22 Connection event timing and supervision follow the connection parameters."""
import os, sys
sys.path.insert(0, os.path.dirname(__file__))
from common import BITS_EXTRACTS, BITS_CODE
DT = 'bluetoe/link_layer/delta_time.cpp'
DTH = 'bluetoe/link_layer/include/bluetoe/delta_time.hpp'
LL = 'bluetoe/link_layer/include/bluetoe/link_layer.hpp'
TL = r'template < class Server, template < std::size_t, std::size_t, class > class ScheduledRadio, typename \.\.\. Options >\s*'
QL = r'link_layer< Server, ScheduledRadio, Options\.\.\. >::'

DR = [(r'rhs\.usec_', 'rhs->usec_', '*'), (r'return \*this;', 'return self;', '*'), (r'return delta_time\( (.*) \);', r'return (struct delta_time){ \1 };', '*'),
      (r'uint64_t\( self->usec_ \)', '(uint64_t)( self->usec_ )', '*')]
def dt(sig, **kw): return dict(file=DT, locate=sig, rules=DR, **kw)
DT_EX = dict(
    dt_fields=dict(kind='fields', file=DTH, scope=r'class delta_time\b', names=['usec_']),
    dt_msec=dt(r'delta_time delta_time::msec\( std::uint32_t msec \)'),
    dt_add=dt(r'delta_time& delta_time::operator\+=\( const delta_time& rhs \)'),
    dt_sub=dt(r'delta_time& delta_time::operator-=\( const delta_time& rhs \)'),
    dt_mul=dt(r'delta_time& delta_time::operator\*=\( unsigned rhs \)'),
    dt_div=dt(r'unsigned delta_time::operator/\(const delta_time& rhs \)'),
    dt_lt=dt(r'bool delta_time::operator<\( const delta_time& rhs \) const'),
    dt_le=dt(r'bool delta_time::operator<=\( const delta_time& rhs \) const'),
    dt_gt=dt(r'bool delta_time::operator>\( const delta_time& rhs \) const'),
    dt_ge=dt(r'bool delta_time::operator>=\( const delta_time& rhs \) const'),
    dt_zero=dt(r'bool delta_time::zero\(\) const'),
    dt_ppm=dt(r'delta_time delta_time::ppm\( unsigned part \) const'),
)
DT_CODE = r'''
struct delta_time { {{dt_fields}} };
uint32_t W_a, W_b; unsigned W_part;
#define DT2(self, rhs) (__CPROVER_is_fresh(self, sizeof(struct delta_time)) && __CPROVER_is_fresh(rhs, sizeof(struct delta_time)) && (self)->usec_ == W_a && (rhs)->usec_ == W_b)
struct delta_time dt_msec(uint32_t msec)
__CPROVER_requires(msec <= 4294967)
__CPROVER_ensures(__CPROVER_return_value.usec_ == msec * 1000u) __CPROVER_assigns()
{{dt_msec}}
/* += and -= : exact, never wrapping (the authors' assert is the precondition) */
struct delta_time* dt_add(struct delta_time* self, const struct delta_time* rhs)
__CPROVER_requires(DT2(self, rhs) && (uint64_t)W_a + W_b <= 0xffffffffu)
__CPROVER_ensures(self->usec_ == W_a + W_b) __CPROVER_assigns(self->usec_)
{{dt_add}}
struct delta_time* dt_sub(struct delta_time* self, const struct delta_time* rhs)
__CPROVER_requires(DT2(self, rhs) && W_b <= W_a)
__CPROVER_ensures(self->usec_ == W_a - W_b) __CPROVER_assigns(self->usec_)
{{dt_sub}}
struct delta_time* dt_mul(struct delta_time* self, unsigned rhs)
__CPROVER_requires(__CPROVER_is_fresh(self, sizeof(struct delta_time)) && self->usec_ == W_a && rhs == W_part && (uint64_t)W_a * W_part <= 0xffffffffu && W_a <= 45000000u && W_part <= 1000)
__CPROVER_ensures(self->usec_ == W_a * W_part) __CPROVER_assigns(self->usec_)
{{dt_mul}}
unsigned dt_div(struct delta_time* self, const struct delta_time* rhs)
__CPROVER_requires(DT2(self, rhs) && W_b != 0)
__CPROVER_ensures(__CPROVER_return_value == W_a / W_b) __CPROVER_assigns()
{{dt_div}}
bool dt_lt(const struct delta_time* self, const struct delta_time* rhs) __CPROVER_requires(DT2(self, rhs)) __CPROVER_ensures(__CPROVER_return_value == (W_a < W_b)) __CPROVER_assigns()
{{dt_lt}}
bool dt_le(const struct delta_time* self, const struct delta_time* rhs) __CPROVER_requires(DT2(self, rhs)) __CPROVER_ensures(__CPROVER_return_value == (W_a <= W_b)) __CPROVER_assigns()
{{dt_le}}
bool dt_gt(const struct delta_time* self, const struct delta_time* rhs) __CPROVER_requires(DT2(self, rhs)) __CPROVER_ensures(__CPROVER_return_value == (W_a > W_b)) __CPROVER_assigns()
{{dt_gt}}
bool dt_ge(const struct delta_time* self, const struct delta_time* rhs) __CPROVER_requires(DT2(self, rhs)) __CPROVER_ensures(__CPROVER_return_value == (W_a >= W_b)) __CPROVER_assigns()
{{dt_ge}}
bool dt_zero(const struct delta_time* self) __CPROVER_requires(__CPROVER_is_fresh(self, sizeof(struct delta_time)) && self->usec_ == W_a) __CPROVER_ensures(__CPROVER_return_value == (W_a == 0)) __CPROVER_assigns()
{{dt_zero}}
/* parts per million: the statement wants the window widened by AT LEAST usec * part / 10^6 */
#ifndef PPM_USEC_MAX
#define PPM_USEC_MAX 45000000u     /* 45 s: supervision timeout is at most 32 s, plus transmit window */
#endif
struct delta_time dt_ppm(const struct delta_time* self, unsigned part)
__CPROVER_requires(__CPROVER_is_fresh(self, sizeof(struct delta_time)) && self->usec_ == W_a && part == W_part && W_part <= 1000 && W_a <= PPM_USEC_MAX)
__CPROVER_ensures((uint64_t)__CPROVER_return_value.usec_ * 1000000u >= (uint64_t)W_a * W_part)
/* and less than two microseconds short, never too long */
__CPROVER_ensures(((uint64_t)__CPROVER_return_value.usec_ + 2) * 1000000u > (uint64_t)W_a * W_part && (uint64_t)__CPROVER_return_value.usec_ * 1000000u <= (uint64_t)W_a * W_part)
__CPROVER_assigns()
{{dt_ppm}}
#define DSETUP struct delta_time* a; struct delta_time* b; W_a = nondet_u32(); W_b = nondet_u32(); W_part = nondet_unsigned(); BT_KNOWN_EXCLUDE()
void h_dt_msec(void) { DSETUP; dt_msec(nondet_u32()); BT_CANARY(); }
void h_dt_add(void) { DSETUP; dt_add(a, b); BT_CANARY(); }
void h_dt_sub(void) { DSETUP; dt_sub(a, b); BT_CANARY(); }
void h_dt_mul(void) { DSETUP; dt_mul(a, W_part); BT_CANARY(); }
void h_dt_div(void) { DSETUP; dt_div(a, b); BT_CANARY(); }
void h_dt_lt(void) { DSETUP; dt_lt(a, b); BT_CANARY(); }
void h_dt_le(void) { DSETUP; dt_le(a, b); BT_CANARY(); }
void h_dt_gt(void) { DSETUP; dt_gt(a, b); BT_CANARY(); }
void h_dt_ge(void) { DSETUP; dt_ge(a, b); BT_CANARY(); }
void h_dt_zero(void) { DSETUP; dt_zero(a); BT_CANARY(); }
void h_dt_ppm(void) { DSETUP; dt_ppm(a, W_part); BT_CANARY(); }
'''
UNITS = [
    dict(name='delta_time', extracts=DT_EX, code=DT_CODE, timeout=600,
         enforce=['dt_msec', 'dt_add', 'dt_sub', 'dt_mul', 'dt_lt', 'dt_le', 'dt_gt', 'dt_ge', 'dt_zero', 'dt_ppm'], replace=[],
         flags_off=['--unsigned-overflow-check']),
]

# ------------------------------------------------------------------ link_layer: parameter validation and the receive window
PL = 'bluetoe/link_layer/include/bluetoe/peripheral_latency.hpp'
NAMES = r'(?:self->)?(?:transmit_window_size_|transmit_window_offset_|connection_interval_|connection_timeout_|procedure_timeout_|maximum_transmit_window_offset|maximum_connection_timeout|minimum_connection_timeout|minimum_connection_interval|maximum_connection_interval|transmit_window_offset|window_start|window_end|window_size|time_since_last_event)'
TR = [
    (r'using namespace ::bluetoe::details;', '', '*'),
    (r'static constexpr delta_time (\w+)\( ([^;]*) \);', r'const struct delta_time \1 = { \2 };', '*'),   # before generic rewrite this is 'const delta_time'
    (r'const delta_time (\w+)\( ([^;]*) \);', r'const struct delta_time \1 = { \2 };', '*'),
    (r'\bdelta_time\( ([^;]*) \);', r'(struct delta_time){ \1 };', '*'),
    (r'(?<!struct )\bdelta_time (\w+);', r'struct delta_time \1 = { 0 };', '*'),
    (r'const delta_time (\w+)\s*=', r'const struct delta_time \1 =', '*'),
    # comparison of two delta_time objects / of one with  unsigned * delta_time  (operator<, <=, >, >=; operator*( unsigned, delta_time ))
    (r'(' + NAMES + r')\s*(<=|>=|<|>)\s*([^&;]*?) \* (' + NAMES + r')(?=\s*(?:&&|;|\)))', r'DT_CMP( \1, \2, dt_times( \3, \4 ) )', '*'),
    (r'(' + NAMES + r')\s*(<=|>=|<|>)\s*(' + NAMES + r')\b', r'DT_CMP( \1, \2, \3 )', '*'),
    (r'(' + NAMES + r')\.zero\(\)', r'dt_zero( &\1 )', '*'),
    (r'(\w+)\s*=\s*(' + NAMES + r') ([+-]) (' + NAMES + r');', r'\1 = dt_binop( \2, \3, \4 );', '*'),
    (r'(\w+)\s*([+-])=\s*(\w+)\.ppm\( self->cumulated_sleep_clock_accuracy_ \);', r'\1 = dt_binop( \1, \2, dt_ppm_( \3, self->cumulated_sleep_clock_accuracy_ ) );', '*'),
    (r'(' + NAMES + r')\.ppm\( self->cumulated_sleep_clock_accuracy_ \)', r'dt_ppm_( \1, self->cumulated_sleep_clock_accuracy_ )', '*'),
    (r'this->time_since_last_event\(\)|self->time_since_last_event\(\)', 'time_since_last_event_( self )', '*'),
    (r'self->schedule_connection_event\(\s*self->channels_\.data_channel\( self->current_channel_index\(\) \),', 'schedule_connection_event( G_channel,', '*'),
    (r'check_timing_paremeters\(\)', 'check_timing_paremeters( self )', '*'),
]
def ll(sig, **kw):
    d = dict(file=LL, locate=TL + sig, rules=TR); d.update(kw); return d
T_EX = dict(BITS_EXTRACTS, **{k: DT_EX[k] for k in ('dt_fields', 'dt_zero')},
    us_per_digits=dict(kind='expr', file=LL, locate=r'static constexpr auto\s+us_per_digits\s*='),
    max_latency=dict(kind='expr', file=PL, locate=r'static constexpr auto\s+maximum_link_layer_peripheral_latency\s*='),
    ll_fields=dict(kind='fields', file=LL, scope=r'class link_layer :', names=['cumulated_sleep_clock_accuracy_', 'transmit_window_offset_', 'transmit_window_size_', 'connection_interval_',
                   'peripheral_latency_', 'timeout_value_', 'connection_timeout_', 'pending_event_'], type_map={'delta_time': 'struct delta_time'}),
    check=ll(r'bool ' + QL + r'check_timing_paremeters\(\) const'),
    parse_conn=ll(r'bool ' + QL + r'parse_timing_parameters_from_connect_request\( const std::uint8_t\* valid_connect_request_body \)'),
    parse_upd=ll(r'bool ' + QL + r'parse_timing_parameters_from_connection_update_request\( const std::uint8_t\* valid_update_request \)'),
    sca=ll(r'unsigned ' + QL + r'sleep_clock_accuracy\( const std::uint8_t\* received_body \) const'),
    setup=ll(r'delta_time ' + QL + r'setup_next_connection_event\(\)'),
)
T_CODE = BITS_CODE + r"""
struct delta_time { {{dt_fields}} };
#define us_per_digits ({{us_per_digits}})
#define maximum_link_layer_peripheral_latency ((uint16_t)({{max_latency}}))
struct ll { {{ll_fields}} };
#define DT_CMP(a, op, b) ((a).usec_ op (b).usec_)      /* delta_time::operator<, <=, >, >= (bodies under contract in unit delta_time: comparison of usec_) */
/* operator*( unsigned, delta_time ), operator+ / operator- : exact unless the authors' overflow assert fires - that assert is an obligation here */
static inline struct delta_time dt_times(unsigned lhs, struct delta_time rhs) { uint64_t p = (uint64_t)lhs * rhs.usec_; __CPROVER_assert(p <= 0xffffffffu, "repo assert: delta_time::operator*= does not overflow"); return (struct delta_time){ (uint32_t)p }; }
static inline struct delta_time dt_binop_(struct delta_time a, int minus, struct delta_time b) { if (minus) { __CPROVER_assert(b.usec_ <= a.usec_, "repo assert: delta_time::operator-= does not underflow"); return (struct delta_time){ a.usec_ - b.usec_ }; }
   __CPROVER_assert((uint64_t)a.usec_ + b.usec_ <= 0xffffffffu, "repo assert: delta_time::operator+= does not overflow"); return (struct delta_time){ a.usec_ + b.usec_ }; }
#define dt_binop(a, op, b) dt_binop_((a), (1 op 1) == 0, (b))
bool dt_zero(const struct delta_time* self) {{dt_zero}}
/* delta_time::ppm is a pure function of ( usec_, part ): its value is named PPM( usec, part ) here; the numeric bounds of PPM are the dt_ppm
   contract proved in unit delta_time ( PPM*10^6 <= usec*part <= (PPM+1)*10^6 ) */
uint32_t __CPROVER_uninterpreted_ppm(uint32_t, unsigned);
#define PPM(u, p) __CPROVER_uninterpreted_ppm((u), (p))
struct delta_time dt_ppm(const struct delta_time* self, unsigned part)
__CPROVER_requires(part <= 1000 && self->usec_ <= 45000000u)
__CPROVER_ensures(__CPROVER_return_value.usec_ == PPM(self->usec_, part) && __CPROVER_return_value.usec_ <= self->usec_)
__CPROVER_assigns()
;
static inline struct delta_time dt_ppm_(struct delta_time t, unsigned part) { return dt_ppm(&t, part); }
uint32_t W_tsle; uint8_t W_body[36]; uint32_t W_win_off, W_win_size, W_interval, W_timeout; uint16_t W_latency; unsigned W_sca;
static inline struct delta_time time_since_last_event_(struct ll* self) { return (struct delta_time){ W_tsle }; }
unsigned G_channel; struct delta_time G_sched_start, G_sched_end, G_sched_interval; int G_sched_calls;
static inline struct delta_time schedule_connection_event(unsigned channel, struct delta_time start, struct delta_time end, struct delta_time interval)
{ ++G_sched_calls; G_sched_start = start; G_sched_end = end; G_sched_interval = interval; return (struct delta_time){ 0 }; }

#define LL_OK(self) (__CPROVER_is_fresh(self, sizeof(struct ll)) && (self)->transmit_window_offset_.usec_ == W_win_off && (self)->transmit_window_size_.usec_ == W_win_size && (self)->connection_interval_.usec_ == W_interval \
   && (self)->connection_timeout_.usec_ == W_timeout && (self)->peripheral_latency_ == W_latency && (self)->cumulated_sleep_clock_accuracy_ == W_sca)
/* Core spec Vol 6 Part B 2.3.3.1 / 2.4.2.1: valid connection parameters */
#define SPEC_VALID_(iv, lat, to, ws) ((iv) >= 7500 && (iv) <= 4000000 && (lat) <= 499 && (to) >= 100000 && (to) <= 32000000 \
   && (uint64_t)(to) >= (uint64_t)(1 + (lat)) * (iv) * 2 /* the spec says 'larger than'; the library accepts equality */ \
   && (ws) <= 10000 && (ws) <= (iv))
#define SPEC_VALID(self) SPEC_VALID_((self)->connection_interval_.usec_, (self)->peripheral_latency_, (self)->connection_timeout_.usec_, (self)->transmit_window_size_.usec_)
bool check_timing_paremeters(const struct ll* self)
__CPROVER_requires(WIT(check_timing_paremeters, LL_OK(self)) && __CPROVER_r_ok(self, sizeof(*self)))
/* a connection is only established from valid timing parameters */
__CPROVER_ensures(__CPROVER_return_value == SPEC_VALID(self))
__CPROVER_assigns()
{{check}}
unsigned sleep_clock_accuracy(const struct ll* self, const uint8_t* received_body)
__CPROVER_requires(__CPROVER_r_ok(received_body, 34))
__CPROVER_ensures(__CPROVER_return_value == ((received_body[33] >> 5) == 0 ? 500 : (received_body[33] >> 5) == 1 ? 250 : (received_body[33] >> 5) == 2 ? 150 : (received_body[33] >> 5) == 3 ? 100
                 : (received_body[33] >> 5) == 4 ? 75 : (received_body[33] >> 5) == 5 ? 50 : (received_body[33] >> 5) == 6 ? 30 : 20))
__CPROVER_assigns()
{{sca}}
#define LE16(b, i) ((uint32_t)((b)[i] | ((b)[(i) + 1] << 8)))
bool parse_timing_parameters_from_connect_request(struct ll* self, const uint8_t* valid_connect_request_body)
__CPROVER_requires(__CPROVER_is_fresh(self, sizeof(struct ll)) && __CPROVER_is_fresh(valid_connect_request_body, 34))
__CPROVER_requires(valid_connect_request_body[19] == W_body[19] && valid_connect_request_body[20] == W_body[20] && valid_connect_request_body[21] == W_body[21] && valid_connect_request_body[22] == W_body[22]
   && valid_connect_request_body[23] == W_body[23] && valid_connect_request_body[24] == W_body[24] && valid_connect_request_body[25] == W_body[25] && valid_connect_request_body[26] == W_body[26] && valid_connect_request_body[27] == W_body[27])
/* the fields of CONNECT_IND: WinSize, WinOffset (the window starts 1.25 ms + WinOffset after the request), Interval, Latency, Timeout */
__CPROVER_ensures(self->transmit_window_size_.usec_ == W_body[19] * 1250u && self->transmit_window_offset_.usec_ == LE16(W_body, 20) * 1250u + 1250u && self->connection_interval_.usec_ == LE16(W_body, 22) * 1250u
   && self->peripheral_latency_ == LE16(W_body, 24) && self->connection_timeout_.usec_ == LE16(W_body, 26) * 10000u)
__CPROVER_ensures(__CPROVER_return_value ==> (LE16(W_body, 22) >= 6 && LE16(W_body, 22) <= 3200 && LE16(W_body, 24) <= 499 && LE16(W_body, 26) >= 10 && LE16(W_body, 26) <= 3200
   && LE16(W_body, 26) * 10000u >= (1 + LE16(W_body, 24)) * LE16(W_body, 22) * 2500u && W_body[19] * 1250u <= 10000 && W_body[19] <= LE16(W_body, 22) && LE16(W_body, 20) <= LE16(W_body, 22)))
__CPROVER_assigns(self->transmit_window_size_, self->transmit_window_offset_, self->connection_interval_, self->peripheral_latency_, self->timeout_value_, self->connection_timeout_)
{{parse_conn}}
bool parse_timing_parameters_from_connection_update_request(struct ll* self, const uint8_t* valid_update_request)
__CPROVER_requires(__CPROVER_is_fresh(self, sizeof(struct ll)) && __CPROVER_is_fresh(valid_update_request, 12))
__CPROVER_requires(valid_update_request[1] == W_body[1] && valid_update_request[2] == W_body[2] && valid_update_request[3] == W_body[3] && valid_update_request[4] == W_body[4] && valid_update_request[5] == W_body[5]
   && valid_update_request[6] == W_body[6] && valid_update_request[7] == W_body[7] && valid_update_request[8] == W_body[8] && valid_update_request[9] == W_body[9])
__CPROVER_ensures(self->transmit_window_size_.usec_ == W_body[1] * 1250u && self->transmit_window_offset_.usec_ == LE16(W_body, 2) * 1250u && self->connection_interval_.usec_ == LE16(W_body, 4) * 1250u
   && self->peripheral_latency_ == LE16(W_body, 6) && self->connection_timeout_.usec_ == LE16(W_body, 8) * 10000u)
__CPROVER_ensures(__CPROVER_return_value ==> (LE16(W_body, 4) >= 6 && LE16(W_body, 4) <= 3200 && LE16(W_body, 6) <= 499 && LE16(W_body, 8) >= 10 && LE16(W_body, 8) <= 3200
   && LE16(W_body, 8) * 10000u >= (1 + LE16(W_body, 6)) * LE16(W_body, 4) * 2500u && W_body[1] * 1250u <= 10000 && W_body[1] <= LE16(W_body, 4) && LE16(W_body, 2) <= LE16(W_body, 4)))
__CPROVER_assigns(self->transmit_window_size_, self->transmit_window_offset_, self->connection_interval_, self->peripheral_latency_, self->timeout_value_, self->connection_timeout_)
{{parse_upd}}
/* the receive window: around the expected anchor (time since the last event, plus the transmit window after a connect / update request),
   widened on both sides by the combined sleep clock accuracy over the elapsed time (ppm contract: rounded down, at most 1 us short) */
struct delta_time setup_next_connection_event(struct ll* self)
__CPROVER_requires(LL_OK(self) && W_sca <= 1000 && W_tsle >= 1 && W_tsle <= 36000000u && W_win_off <= 82000000u / 20 && W_win_size <= 10000 && W_interval >= 7500 && W_interval <= 4000000 && G_sched_calls == 0)
__CPROVER_ensures(G_sched_calls == 1 && self->pending_event_ && G_sched_interval.usec_ == W_interval)
__CPROVER_ensures(W_win_size == 0 ==> (G_sched_start.usec_ == W_tsle - PPM(W_tsle, W_sca) && G_sched_end.usec_ == W_tsle + PPM(W_tsle, W_sca)))
__CPROVER_ensures(W_win_size != 0 ==> (G_sched_start.usec_ == W_tsle + W_win_off - PPM(W_tsle + W_win_off, W_sca)
                                       && G_sched_end.usec_ == W_tsle + W_win_off + W_win_size + PPM(W_tsle + W_win_off + W_win_size, W_sca)))
__CPROVER_assigns(self->pending_event_, G_sched_calls, G_sched_start, G_sched_end, G_sched_interval)
{{setup}}
#define TSETUP struct ll* l; uint8_t* b; W_tsle = nondet_u32(); for (int k = 0; k < 36; ++k) W_body[k] = nondet_u8(); W_win_off = nondet_u32(); W_win_size = nondet_u32(); W_interval = nondet_u32(); W_timeout = nondet_u32(); \
  W_latency = nondet_u16(); W_sca = nondet_unsigned(); G_sched_calls = 0; BT_KNOWN_EXCLUDE()
void h_check_timing_paremeters(void) { TSETUP; check_timing_paremeters(l); BT_CANARY(); }
void h_sleep_clock_accuracy(void) { TSETUP; uint8_t body[34]; struct ll x; sleep_clock_accuracy(&x, body); BT_CANARY(); }
void h_parse_timing_parameters_from_connect_request(void) { TSETUP; parse_timing_parameters_from_connect_request(l, b); BT_CANARY(); }
void h_parse_timing_parameters_from_connection_update_request(void) { TSETUP; parse_timing_parameters_from_connection_update_request(l, b); BT_CANARY(); }
void h_setup_next_connection_event(void) { TSETUP; setup_next_connection_event(l); BT_CANARY(); }
"""
UNITS.append(dict(name='timing', extracts=T_EX, code=T_CODE, timeout=600,
         enforce=['check_timing_paremeters', 'sleep_clock_accuracy', 'parse_timing_parameters_from_connect_request', 'parse_timing_parameters_from_connection_update_request', 'setup_next_connection_event'],
         replace=['dt_ppm', 'check_timing_paremeters'], flags_off=['--unsigned-overflow-check']))


# ------------------------------------------------------------------ link_layer::timeout(): supervision
S_RULES = TR + [(r'\bstate::', 'state_', '*'), (r'\bll_result::', 'll_result_', '*'),
    (r'this->template handle_connection_events< link_layer< Server, ScheduledRadio, Options\.\.\. > >\(\)|self->template handle_connection_events< link_layer< Server, ScheduledRadio, Options\.\.\. > >\(\)', 'handle_connection_events_()', 1),
    (r'self->pending_outgoing_data_available\(\)', 'G_pending_outgoing', '*'), (r'self->plan_next_connection_event_after_timeout\( self->connection_interval_ \)', 'plan_next_connection_event_after_timeout_()', 1),
    (r'handle_pending_ll_control\( self->connection_event_counter\(\) \)', 'handle_pending_ll_control_()', 1), (r'force_disconnect\( connection_ll_response_timeout \)', 'force_disconnect_reason( 0x22 )', '*'),
    (r'force_disconnect\(\)', 'force_disconnect_()', '*'), (r'setup_next_connection_event\(\)', 'setup_next_connection_event_()', '*')]
S_EX = dict({k: T_EX[k] for k in ('dt_fields', 'dt_zero')},
    state_enum=dict(kind='text', body='text', file=LL, scope=r'class link_layer :', locate=r'enum class state\s*\{[^}]*\}', no_members=True,
                    rules=[(r'enum class state', 'enum state', 1), (r'\b(initial|advertising|connecting|connected|disconnecting|connection_changed)\b', r'state_\1', 6)]),
    res_enum=dict(kind='enum', file=LL, scope=r'class link_layer :', name='ll_result'),
    nwin=dict(kind='expr', file=LL, locate=r'static constexpr unsigned\s+num_windows_til_timeout\s*='),
    s_fields=dict(kind='fields', file=LL, scope=r'class link_layer :', names=['connection_interval_', 'connection_timeout_', 'procedure_timeout_', 'pending_event_', 'termination_send_'], type_map={'delta_time': 'struct delta_time'}),
    timeout=ll(r'void ' + QL + r'timeout\(\)', rules=S_RULES),
)
S_CODE = r"""
struct delta_time { {{dt_fields}} };
{{state_enum}};
{{res_enum}};
#define num_windows_til_timeout ((unsigned)({{nwin}}))
struct ll { {{s_fields}} enum state state_; };
#define DT_CMP(a, op, b) ((a).usec_ op (b).usec_)
static inline struct delta_time dt_times(unsigned lhs, struct delta_time rhs) { uint64_t p = (uint64_t)lhs * rhs.usec_; __CPROVER_assert(p <= 0xffffffffu, "repo assert: delta_time::operator*= does not overflow"); return (struct delta_time){ (uint32_t)p }; }
bool dt_zero(const struct delta_time* self) {{dt_zero}}
uint32_t W_tsle, W_interval, W_timeout, W_proc; int W_state; bool W_term, W_pending; int W_ctrl;
bool G_pending_outgoing; int G_force, G_force_reason, G_plan, G_setup, G_events, G_ctrl_result;
static inline struct delta_time time_since_last_event_(struct ll* self) { return (struct delta_time){ W_tsle }; }
static inline void force_disconnect_(void) { ++G_force; }
static inline void force_disconnect_reason(uint8_t r) { ++G_force; G_force_reason = r; }
static inline void plan_next_connection_event_after_timeout_(void) { ++G_plan; }
static inline enum ll_result handle_pending_ll_control_(void) { return (enum ll_result)G_ctrl_result; }
static inline void setup_next_connection_event_(void) { ++G_setup; }
static inline void handle_connection_events_(void) { ++G_events; }
#define TERMINATING (W_state == state_disconnecting && W_term && !W_pending)
#define PROC_TIMED_OUT (W_proc != 0 && W_proc <= W_tsle)
#define SUPERVISION_EXPIRED (W_tsle >= W_timeout || (W_state == state_connecting && (uint64_t)W_tsle >= (uint64_t)5 * W_interval))
void timeout(struct ll* self)
__CPROVER_requires(__CPROVER_is_fresh(self, sizeof(struct ll)) && (int)self->state_ == W_state && W_state >= state_connecting && W_state <= state_connection_changed && self->termination_send_ == W_term && G_pending_outgoing == W_pending
   && self->connection_interval_.usec_ == W_interval && W_interval >= 7500 && W_interval <= 4000000 && self->connection_timeout_.usec_ == W_timeout && self->procedure_timeout_.usec_ == W_proc
   && G_ctrl_result == W_ctrl && (W_ctrl == 0 || W_ctrl == 1) && G_force == 0 && G_plan == 0 && G_setup == 0 && G_events == 0 && G_force_reason == 0)
/* the link is dropped for supervision only after no valid packet for the supervision timeout (or, while the connection is being established, for six connection intervals) */
__CPROVER_ensures((!TERMINATING && !PROC_TIMED_OUT && !SUPERVISION_EXPIRED && W_ctrl == ll_result_go_ahead) ==> (G_force == 0 && G_plan == 1 && G_setup == 1))
__CPROVER_ensures((!TERMINATING && !PROC_TIMED_OUT && SUPERVISION_EXPIRED) ==> (G_force == 1 && G_plan == 0 && G_setup == 0))
__CPROVER_ensures(PROC_TIMED_OUT && !TERMINATING ==> (G_force == 1 && G_force_reason == 0x22))
__CPROVER_ensures(G_force <= 1 && G_events == 1 && !self->pending_event_ && (G_force == 1 ==> G_setup == 0))
__CPROVER_assigns(self->pending_event_, G_force, G_force_reason, G_plan, G_setup, G_events)
{{timeout}}
void h_timeout(void) { struct ll* l; W_tsle = nondet_u32(); W_interval = nondet_u32(); W_timeout = nondet_u32(); W_proc = nondet_u32(); W_state = nondet_int(); W_term = nondet_bool(); W_pending = nondet_bool(); W_ctrl = nondet_int();
  G_pending_outgoing = W_pending; G_ctrl_result = W_ctrl; G_force = 0; G_plan = 0; G_setup = 0; G_events = 0; G_force_reason = 0; BT_KNOWN_EXCLUDE(); timeout(l); BT_CANARY(); }
"""
UNITS.append(dict(name='supervision', extracts=S_EX, code=S_CODE, enforce=['timeout'], replace=[], flags_off=['--unsigned-overflow-check']))

for u in UNITS:
    if u['name'] in ('delta_time', 'timing'):
        u['replay'] = dict(src='replay/c22_replay.cpp', cxxflags=['-DNDEBUG', '-I/repo/tests/test_tools'],
                           repo_sources=['tests/test_tools/test_radio.cpp', 'tests/test_tools/hexdump.cpp', 'tests/test_tools/buffer_io.cpp', 'tests/test_tools/address_io.cpp',
                                         'bluetoe/link_layer/delta_time.cpp', 'bluetoe/link_layer/channel_map.cpp', 'bluetoe/link_layer/connection_details.cpp', 'bluetoe/utility/address.cpp'])
META = dict(
    level='proof',
    explanation="delta_time.cpp (msec, +=, -=, *=, <, <=, >, >=, zero, ppm): exact unsigned arithmetic under the authors' no-overflow asserts; ppm( part ) for "
                "usec <= 45 s, part <= 1000: result <= usec*part/10^6 < result + 2 us. link_layer.hpp: check_timing_paremeters returns true exactly for "
                "Core spec parameters (interval 7.5 ms..4 s, latency <= 499, timeout 100 ms..32 s and >= (1+latency)*interval*2, winSize <= min(10 ms, "
                "interval)); parse_timing_parameters_from_connect_request / ..._connection_update_request decode the CONNECT_IND / "
                "LL_CONNECTION_UPDATE_IND fields exactly and accept only valid parameters with winOffset <= interval; sleep_clock_accuracy maps the SCA "
                "field to the spec's ppm table; setup_next_connection_event schedules [ t - ppm(t), t + ppm(t) ] (t = time since the last anchor) or, "
                "after a connect/update request, [ t + offset - ppm(..), t + offset + size + ppm(..) ], with the stored connection interval; timeout(): "
                "the link is dropped for supervision only when time since the last event >= supervision timeout (or >= 5 intervals while "
                "connecting), otherwise the next event is planned and scheduled.",
    assumptions=["known finding F-C22a (class excluded): ppm rounds down, the window is up to 2 us narrower than 'at least the combined accuracy'",
                 "in setup_next_connection_event delta_time::ppm is represented by an uninterpreted function PPM(usec, part) (pure function); the numeric "
                 "bounds of PPM are the dt_ppm contract of unit delta_time; substituting one into the other is a paper step",
                 "delta_time operators in link_layer.hpp are mapped to their contracts: comparisons compare usec_, + - * are exact with the authors' "
                 "overflow asserts as obligations (the operator bodies are under contract in unit delta_time)",
                 "'anchor plus a whole number of connection intervals': time_since_last_event() is maintained by plan_next_connection_event (C23: "
                 "time_since_last_event == k * interval); here it is a symbolic input",
                 "the spec's 'timeout larger than (1+latency)*interval*2' is accepted with equality by the library (stated in the contract); "
                 "winSize <= interval - 1.25 ms is not checked by the library (accepted up to interval) - both noted, not treated as findings",
                 "delta_time::operator/ (one C division) is not under contract: 32 bit division did not finish on the SAT back end"],
    trusted_base=["scheduled radio: schedule_connection_event( channel, start, end, interval ) opens the receiver at start"],
)
