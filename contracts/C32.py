"""C32 Pairing messages are only accepted in protocol order (security manager handlers)."""
import os, sys, re
sys.path.insert(0, os.path.dirname(__file__))
from common import BITS_EXTRACTS, BITS_CODE, COPY_RULE
SM = 'bluetoe/sm/include/bluetoe/security_manager.hpp'
SCD = 'bluetoe/sm/include/bluetoe/security_connection_data.hpp'
IOC = 'bluetoe/sm/include/bluetoe/io_capabilities.hpp'
BASE = r'class security_manager_base\s*:'
TPL = r'template < typename SecurityFunctions, template < class OtherConnectionData > class ConnectionData, typename \.\.\. Options >\s*'
TC = r'template < class Connection >\s*'
B = r'details::security_manager_base< SecurityFunctions, ConnectionData, Options\.\.\. >::'
ARGS = r'\(\s*const std::uint8_t\* input, std::size_t in_size, std::uint8_t\* output, std::size_t& out_size, Connection& state \)'
def _states(m):
    names = re.findall(r'details::sm_pairing_state::(\w+)', m.group(1))
    return 'if ( !( ' + ' || '.join('st_state( state ) == sm_pairing_state_%s' % n for n in names) + ' ) )'
PRE = [
    (r'using namespace (?:bluetoe::)?details;', '', '*'),
    # the list of expected states and its std::find
    (r'static const auto expected_states = \{([^}]*)\};\s*if \( std::find\( std::begin\( expected_states \), std::end\( expected_states \), state\.state\(\) \) == std::end\( expected_states \) \)', _states, '*'),
    (r'std::tie\( mac_key, ltk \) = security_functions\(\)\.f5\( ([^;]*?) \);', r'{ struct pair_u128 tmp = sf_f5( \1 ); mac_key = tmp.first; ltk = tmp.second; }', '*'),
    (r'const auto& keys  = security_functions\(\)\.generate_keys\(\);', 'const struct key_pair keys = sf_generate_keys();', '*'),
    (r'const auto& nonce = security_functions\(\)\.select_random_nonce\(\);', 'const struct u128 nonce = sf_select_random_nonce();', '*'),
    (r'const auto& (nonce|Nb) = state\.local_nonce\(\);', r'const struct u128 \1 = st_local_nonce( state );', '*'),
    (r'sm_pairing_numeric_compare_output\( state, security_functions\(\) \)', 'sm_pairing_numeric_compare_output( state, 0 )', '*'),
    (r'security_functions\(\)\.(\w+)\(\)', r'sf_\1()', '*'), (r'security_functions\(\)\.(\w+)\( ', r'sf_\1( ', '*'), (r', security_functions\(\), state \)', ', state )', '*'),
    (r'\bstate\.(\w+)\(\)', r'st_\1( state )', '*'), (r'\bstate\.(\w+)\( ', r'st_\1( state, ', '*'),
    (r'st_arm_key_distribution\( state, security_functions\(\), state \)', 'st_arm_key_distribution( state, state )', '*'),
    (r'st_pairing_algorithm\( state, (?:this->)?(legacy|lesc)_select_pairing_algorithm\(', r'st_pairing_algorithm_\1( state, \1_select_pairing_algorithm(', '*'),
    (r'st_passkey\( state, key \)', 'st_passkey_set( state, key )', '*'),
    (r'(?:this->)?error_response\( ((?:details::)?sm_error_codes::\w+), output, out_size, state \)', r'error_response4( \1, output, out_size, state )', '*'),
    (r'details::error_response\( ([^,;]+), output, out_size \)', r'error_response( \1, output, out_size )', '*'),
    (r'(?:this->)?create_pairing_response\( output, out_size, ', 'create_pairing_response( output, out_size, ', '*'),
    (r'this->(legacy|lesc)_handle_(\w+)\( input, in_size, output, out_size, state \)', r'\1_handle_\2( input, in_size, output, out_size, state )', '*'),
    (r'(?<![\w>])handle_pairing_request\( input, in_size, output, out_size, state \)', 'handle_pairing_request( input, in_size, output, out_size, state )', '*'),
    (r'this->lesc_l2cap_output\( output, out_size, state \)', 'lesc_l2cap_output( output, out_size, state )', '*'),
    (r'st_distribute_keys\( state, output, out_size, state \)', 'st_distribute_keys( state, output, out_size )', '*'),
    (r'this->', '', '*'),
    (r'io_device_t::(\w+)\( ', r'io_\1( ', '*'), (r'io_device_t::(\w+)\(\)', r'io_\1()', '*'),
    (r'(?:details::)?sm_error_codes::', 'sm_error_codes_', '*'), (r'(?:details::)?sm_opcodes::', 'sm_opcodes_', '*'), (r'(?:details::)?sm_pairing_state::', 'sm_pairing_state_', '*'),
    (r'(?:details::)?legacy_pairing_algorithm::', 'legacy_pairing_algorithm_', '*'), (r'(?:details::)?lesc_pairing_algorithm::', 'lesc_pairing_algorithm_', '*'),
    (r'io_capabilities::last', 'io_capabilities_last', '*'), (r'(?:details::)?authentication_requirements_flags::secure_connections', 'arf_secure_connections', '*'),
    (r'(?:const )?(?:details::)?uint128_t (\w+)(\s*=|;)', r'struct u128 \1\2', '*'), (r'const (?:details::)?ecdh_shared_secret_t dh_key', 'const struct u256 dh_key', '*'),
    (r'const io_capabilities_t remote_io_caps', 'const struct u24 remote_io_caps', '*'),
    (r'static const struct u128 zero', 'const struct u128 zero', '*'),
    (r'const auto (\w+)\s+= (sf_c1|sf_s1|sf_f4|sf_f6|st_srand|legacy_create_temporary_key|sf_create_passkey|io_sm_pairing_passkey)\(', r'const struct u128 \1 = \2(', '*'),
    (r'const auto algo = ', 'const int algo = (int)', '*'),
    (r'return uint128_t\( \{ 0 \} \);', 'return (struct u128){ { 0 } };', '*'),
    (r'if \( mconfirm != st_mconfirm\( state \) \)', 'if ( !u128_eq( mconfirm, st_mconfirm( state ) ) )', '*'),
    (r'!std::equal\( calc_ea\.begin\(\), calc_ea\.end\(\), &input\[ 1 \] \)', '!u128_eq_p( calc_ea, &input[ 1 ] )', '*'),
    (r'std::copy\( &input\[ 1 \], &input\[ pairing_random_size \], mrand\.begin\(\) \);', 'bt_copy_u8( &input[ 1 ], 16, mrand.b );', '*'),
    (r'std::copy\( keys\.first\.begin\(\), keys\.first\.end\(\), &output\[ 1 \] \);', 'bt_copy_u8( keys.first.b, 64, &output[ 1 ] );', '*'),
    (r'std::copy\( (\w+)\.begin\(\), \1\.end\(\), &output\[ 1 \] \);', r'bt_copy_u8( \1.b, 16, &output[ 1 ] );', '*'),
    (r'\bout_size = ', '*out_size = ', '*'), (r'assert\( out_size >= ', 'assert( *out_size >= ', '*'),
    (r'io_caps\[ (\d) \]', r'io_caps.b[ \1 ]', '*'), (r'key_distribution_t::request_key_flags', 'G_request_key_flags', '*'),
    (r'static constexpr std::size_t\s+(request_size|pairing_random_size) = 17;', r'const size_t \1 = 17;', '*'),
    (r'const sm_opcodes opcode', 'const enum sm_opcodes opcode', '*'),
    (r'(?<![\w.])(min_max_key_size|max_max_key_size|pairing_req_resp_size|public_key_exchange_size|pairing_confirm_size|pairing_random_size|pairing_dhkey_check_size)(?!\w)(?! = 17)', r'K_\1', '*'),
    (r'const size_t K_(request_size|pairing_random_size) = 17;', r'const size_t \1 = 17;', '*'),
]
POST = [(r'\(\(sm_opcodes\)\( input\[ 0 \] \)\)', '(enum sm_opcodes)input[ 0 ]', '*')]
def H(cls, name, **kw):
    d = dict(file=SM, locate=TPL + TC + r'void ' + cls + name + ARGS, pre=PRE, rules=POST); d.update(kw); return d
LEGM = r'details::legacy_security_manager_impl< SecurityFunctions, ConnectionData, Options\.\.\. >::'
LESM = r'details::lesc_security_manager_impl< SecurityFunctions, ConnectionData, Options\.\.\. >::'
COMM = r'details::security_manager_impl< SecurityFunctions, ConnectionData, Options\.\.\. >::'
OUT = r'\( std::uint8_t\* output, std::size_t& out_size, Connection& state \)'
EX = dict(BITS_EXTRACTS,
    default_mtu=dict(kind='expr', file='bluetoe/utility/include/bluetoe/codes.hpp', locate=r'static constexpr std::uint16_t default_att_mtu_size ='),
    sm_state=dict(kind='enum', file=SCD, name='sm_pairing_state'), sm_err=dict(kind='enum', file=SM, name='sm_error_codes'), sm_op=dict(kind='enum', file=SM, name='sm_opcodes'),
    legacy_algo=dict(kind='enum', file=IOC, name='legacy_pairing_algorithm'), lesc_algo=dict(kind='enum', file=IOC, name='lesc_pairing_algorithm'), io_caps=dict(kind='enum', file=IOC, name='io_capabilities'),
    **{'K_' + k: dict(kind='expr', file=SM, scope=BASE, locate=r'static constexpr std::(?:uint8_t|size_t)\s+%s\s*=' % k)
       for k in ('min_max_key_size', 'max_max_key_size', 'pairing_req_resp_size', 'public_key_exchange_size', 'pairing_confirm_size', 'pairing_random_size', 'pairing_dhkey_check_size')},
    error_response=dict(file=SM, locate=r'inline void error_response\( details::sm_error_codes error_code, std::uint8_t\* output, std::size_t& out_size \)', pre=PRE),
    error_response4=dict(file=SM, scope=BASE, locate=TC + r'void error_response\( details::sm_error_codes error_code, std::uint8_t\* output, std::size_t& out_size, Connection& state \)', pre=PRE),
    create_pairing_response=dict(file=SM, locate=TPL + r'inline void ' + B + r'create_pairing_response\( std::uint8_t\* output, std::size_t& out_size, const io_capabilities_t& io_caps \)', pre=PRE),
    legacy_request=H(B, 'legacy_handle_pairing_request'), legacy_confirm=H(B, 'legacy_handle_pairing_confirm'), legacy_random=H(B, 'legacy_handle_pairing_random'),
    legacy_create_tk=dict(file=SM, locate=TPL + TC + r'details::uint128_t ' + B + r'legacy_create_temporary_key\( Connection& state \)', pre=PRE),
    legacy_tk=dict(file=SM, locate=TPL + TC + r'details::uint128_t ' + B + r'legacy_temporary_key\( const Connection& state \) const', pre=PRE),
    lesc_request=H(B, 'lesc_handle_pairing_request'), lesc_public_key=H(B, 'lesc_handle_pairing_public_key'), lesc_random=H(B, 'lesc_handle_pairing_random'), lesc_dhkey=H(B, 'lesc_handle_pairing_dhkey_check'),
    lesc_avail=dict(file=SM, locate=TPL + TC + r'bool ' + B + r'lesc_security_manager_output_available\( Connection& state \) const', pre=PRE),
    lesc_output=dict(file=SM, locate=TPL + TC + r'void ' + B + r'lesc_l2cap_output' + OUT, pre=PRE),
    comb_request=H(COMM, 'handle_pairing_request'),
    leg_input=H(LEGM, 'l2cap_input'), lesc_input=H(LESM, 'l2cap_input'), comb_input=H(COMM, 'l2cap_input'),
    lesc_l2_output=dict(file=SM, locate=TPL + TC + r'void ' + LESM + r'l2cap_output' + OUT, pre=PRE),
    comb_l2_output=dict(file=SM, locate=TPL + TC + r'void ' + COMM + r'l2cap_output' + OUT, pre=PRE),
    leg_l2_output=dict(file=SM, locate=TPL + TC + r'void ' + LEGM + r'l2cap_output' + OUT, pre=PRE),
)
CODE = BITS_CODE + r'''
{{sm_state}}; {{sm_err}}; {{sm_op}}; {{legacy_algo}}; {{lesc_algo}}; {{io_caps}};
#define arf_secure_connections 0x08
#define default_att_mtu_size ((size_t)({{default_mtu}}))
#define K_min_max_key_size ((uint8_t)({{K_min_max_key_size}}))
#define K_max_max_key_size ((uint8_t)({{K_max_max_key_size}}))
#define K_pairing_req_resp_size ((size_t)({{K_pairing_req_resp_size}}))
#define K_public_key_exchange_size ((size_t)({{K_public_key_exchange_size}}))
#define K_pairing_confirm_size ((size_t)({{K_pairing_confirm_size}}))
#define K_pairing_random_size ((size_t)({{K_pairing_random_size}}))
#define K_pairing_dhkey_check_size ((size_t)({{K_pairing_dhkey_check_size}}))
typedef unsigned __int128 u128_t;
struct u128 { uint8_t b[16]; }; struct u256 { uint8_t b[32]; }; struct u512 { uint8_t b[64]; }; struct u24 { uint8_t b[3]; };
struct pair_u128 { struct u128 first; struct u128 second; }; struct key_pair { struct u512 first; struct u256 second; };
#define Bq(p, i) ((u128_t)(p)[i] << (8 * (i)))
#define VALP(p) (Bq(p,0)|Bq(p,1)|Bq(p,2)|Bq(p,3)|Bq(p,4)|Bq(p,5)|Bq(p,6)|Bq(p,7)|Bq(p,8)|Bq(p,9)|Bq(p,10)|Bq(p,11)|Bq(p,12)|Bq(p,13)|Bq(p,14)|Bq(p,15))
#define VAL(x) VALP((x).b)
/* std::array operator== / std::equal on 16 octets */
#define CPY4(d, s_, k) (d)[k] = (s_)[k]; (d)[k+1] = (s_)[k+1]; (d)[k+2] = (s_)[k+2]; (d)[k+3] = (s_)[k+3];
#define CPY16(d, s_, k) CPY4(d, s_, k) CPY4(d, s_, k+4) CPY4(d, s_, k+8) CPY4(d, s_, k+12)
static inline bool u128_eq(struct u128 a, struct u128 b) { return VAL(a) == VAL(b); }
static inline bool u128_eq_p(struct u128 a, const uint8_t* b) { return VAL(a) == VALP(b); }
uint8_t G_request_key_flags;
/* ---- the connection's pairing state (security_connection_data.hpp; contracts in C33 / C35): operational stand-in; the classes' own asserts are obligations here */
struct conn { enum sm_pairing_state state_; int legacy_algo, lesc_algo; struct u128 srand, p1, p2, mconfirm, passkey, local_nonce, remote_nonce; uint8_t remote_pub[64], local_pub[64], local_priv[32]; struct u24 remote_io; int remote_address; };
struct s_rec { int resets, completed_legacy, completed_lesc, stored_lesc, armed, distribute, set_algo_legacy, set_algo_lesc, oob_requests; int oob_request_addr; struct u128 completed_key; }; struct s_rec G_s;
#define ST_ASSERT(c, what) __CPROVER_assert(c, "connection data: " what)
static inline enum sm_pairing_state st_state(const struct conn* s) { return s->state_; }
static inline int st_remote_address(const struct conn* s) { return s->remote_address; }
static inline void st_error_reset(struct conn* s) { s->state_ = sm_pairing_state_idle; ++G_s.resets; }
static inline void st_pairing_algorithm_legacy(struct conn* s, enum legacy_pairing_algorithm a) { s->legacy_algo = a; ++G_s.set_algo_legacy; }
static inline void st_pairing_algorithm_lesc(struct conn* s, enum lesc_pairing_algorithm a) { s->lesc_algo = a; ++G_s.set_algo_lesc; }
static inline void st_legacy_pairing_request(struct conn* s, struct u128 srand, struct u128 p1, struct u128 p2) { ST_ASSERT(s->state_ == sm_pairing_state_idle, "legacy_pairing_request in state idle"); s->state_ = sm_pairing_state_legacy_pairing_requested; s->srand = srand; s->p1 = p1; s->p2 = p2; }
static inline void st_pairing_confirm(struct conn* s, const uint8_t* b, const uint8_t* e) { ST_ASSERT(s->state_ == sm_pairing_state_legacy_pairing_requested && e - b == 16, "pairing_confirm in state legacy_pairing_requested with 16 octets"); s->state_ = sm_pairing_state_legacy_pairing_confirmed;
  CPY16(s->mconfirm.b, b, 0) }
static inline struct u128 st_srand(const struct conn* s) { return s->srand; }
static inline struct u128 st_c1_p1(const struct conn* s) { return s->p1; }
static inline struct u128 st_c1_p2(const struct conn* s) { return s->p2; }
static inline struct u128 st_mconfirm(const struct conn* s) { return s->mconfirm; }
static inline void st_legacy_pairing_completed(struct conn* s, struct u128 k) { ST_ASSERT(s->state_ == sm_pairing_state_legacy_pairing_confirmed, "legacy_pairing_completed in state legacy_pairing_confirmed"); s->state_ = sm_pairing_state_pairing_completed; ++G_s.completed_legacy; G_s.completed_key = k; }
static inline void st_arm_key_distribution(struct conn* s, struct conn* c) { ++G_s.armed; }
static inline int st_legacy_pairing_algorithm(const struct conn* s) { return s->legacy_algo; }
static inline int st_lesc_pairing_algorithm(const struct conn* s) { return s->lesc_algo; }
static inline void st_passkey_set(struct conn* s, struct u128 k) { s->passkey = k; }
static inline struct u128 st_passkey(const struct conn* s) { return s->passkey; }
static inline void st_pairing_requested(struct conn* s, struct u24 io) { ST_ASSERT(s->state_ == sm_pairing_state_idle, "pairing_requested in state idle"); s->state_ = sm_pairing_state_lesc_pairing_requested; s->remote_io = io; }
static inline void st_public_key_exchanged(struct conn* s, struct u256 priv, struct u512 pub, const uint8_t* remote, struct u128 nonce) { ST_ASSERT(s->state_ == sm_pairing_state_lesc_pairing_requested, "public_key_exchanged in state lesc_pairing_requested");
  s->state_ = sm_pairing_state_lesc_public_keys_exchanged; s->local_nonce = nonce; CPY16(s->remote_pub, remote, 0) CPY16(s->remote_pub, remote, 16) CPY16(s->remote_pub, remote, 32) CPY16(s->remote_pub, remote, 48) CPY16(s->local_pub, pub.b, 0) CPY16(s->local_pub, pub.b, 16) CPY16(s->local_pub, pub.b, 32) CPY16(s->local_pub, pub.b, 48) CPY16(s->local_priv, priv.b, 0) CPY16(s->local_priv, priv.b, 16) }
static inline void st_pairing_confirm_send(struct conn* s) { ST_ASSERT(s->state_ == sm_pairing_state_lesc_public_keys_exchanged, "pairing_confirm_send in state lesc_public_keys_exchanged"); s->state_ = sm_pairing_state_lesc_pairing_confirm_send; }
static inline void st_pairing_random_exchanged(struct conn* s, const uint8_t* n) { ST_ASSERT(s->state_ == sm_pairing_state_lesc_pairing_confirm_send, "pairing_random_exchanged in state lesc_pairing_confirm_send"); s->state_ = sm_pairing_state_lesc_pairing_random_exchanged; CPY16(s->remote_nonce.b, n, 0) }
static inline struct u128 st_local_nonce(const struct conn* s) { return s->local_nonce; }
static inline struct u128 st_remote_nonce(const struct conn* s) { return s->remote_nonce; }
static inline const uint8_t* st_local_private_key(const struct conn* s) { return s->local_priv; }
static inline const uint8_t* st_remote_public_key(const struct conn* s) { return s->remote_pub; }
static inline const uint8_t* st_remote_public_key_x(const struct conn* s) { return s->remote_pub; }
static inline const uint8_t* st_local_public_key_x(const struct conn* s) { return s->local_pub; }
static inline struct u24 st_remote_io_caps(const struct conn* s) { return s->remote_io; }
static inline void st_lesc_pairing_completed(struct conn* s, struct u128 k) { ST_ASSERT(s->state_ == sm_pairing_state_lesc_pairing_random_exchanged || s->state_ == sm_pairing_state_user_response_success, "lesc_pairing_completed in state lesc_pairing_random_exchanged / user_response_success");
  s->state_ = sm_pairing_state_pairing_completed; ++G_s.completed_lesc; G_s.completed_key = k; }
static inline void st_store_lesc_key_in_bond_db(struct conn* s, struct u128 k, struct conn* c) { ++G_s.stored_lesc; }
static inline void st_distribute_keys(struct conn* s, uint8_t* output, size_t* out_size) { ++G_s.distribute; *out_size = 0; }
'''

CODE += r"""
/* ---- SecurityFunctions (the radio binding's tool box, C37), the IO capability options (C36), the OOB call back, key distribution: abstract, values symbolic, calls recorded */
struct f_rec { int c1_calls, s1_calls, f4_calls, f5_calls, f6_calls, srand_calls, keys_calls, nonce_calls, numeric_out, yes_no, oob_get; struct u128 c1_rand, f6_r[2], f6_n1[2], s1_srand, s1_mrand; }; struct f_rec G_f;
struct u128 W_c1_out[2], W_s1_out, W_f4_out, W_f6_out[2], W_srand, W_nonce, W_mac, W_ltk, W_passkey_new, W_oob, W_p1, W_p2; bool W_valid_key, W_has_oob; int W_sel_legacy, W_sel_lesc; struct u24 W_local_io;
static inline struct u128 sf_create_srand(void) { ++G_f.srand_calls; return W_srand; }
static inline struct u128 sf_c1(struct u128 k, struct u128 r, struct u128 p1, struct u128 p2) { G_f.c1_rand = r; return W_c1_out[G_f.c1_calls++ & 1]; }
static inline struct u128 sf_s1(struct u128 k, struct u128 srand, struct u128 mrand) { ++G_f.s1_calls; G_f.s1_srand = srand; G_f.s1_mrand = mrand; return W_s1_out; }
static inline struct u128 sf_create_passkey(void) { return W_passkey_new; }
static inline int sf_local_address(void) { return 7; }
static inline bool sf_is_valid_public_key(const uint8_t* k) { return W_valid_key; }
static inline struct key_pair sf_generate_keys(void) { struct key_pair k; ++G_f.keys_calls; return k; }
static inline struct u128 sf_select_random_nonce(void) { ++G_f.nonce_calls; return W_nonce; }
static inline struct u256 sf_p256(const uint8_t* priv, const uint8_t* pub) { struct u256 r; return r; }
static inline struct pair_u128 sf_f5(struct u256 dh, struct u128 n1, struct u128 n2, int a1, int a2) { ++G_f.f5_calls; return (struct pair_u128){ W_mac, W_ltk }; }
static inline struct u128 sf_f6(struct u128 key, struct u128 n1, struct u128 n2, struct u128 r, struct u24 io, int a1, int a2) { G_f.f6_r[G_f.f6_calls & 1] = r; G_f.f6_n1[G_f.f6_calls & 1] = n1; return W_f6_out[G_f.f6_calls++ & 1]; }
static inline struct u128 sf_f4(const uint8_t* u, const uint8_t* v, struct u128 x, uint8_t z) { ++G_f.f4_calls; return W_f4_out; }
static inline void io_sm_pairing_numeric_output(struct u128 k) { ++G_f.numeric_out; }
static inline struct u128 io_sm_pairing_passkey(void) { return W_passkey_new; }
static inline void io_sm_pairing_numeric_compare_output(struct conn* s, int functions) { }
/* the user's answer may arrive at once (state user_response_success / failed) or later (user_response_wait) */
int W_user;
static inline void io_sm_pairing_request_yes_no(struct conn* s) { ++G_f.yes_no; s->state_ = W_user == 0 ? sm_pairing_state_user_response_wait : W_user == 1 ? sm_pairing_state_user_response_success : sm_pairing_state_user_response_failed; }
static inline void request_oob_data_presents_for_remote_device(int addr) { ++G_s.oob_requests; G_s.oob_request_addr = addr; }
static inline bool has_oob_data_for_remote_device(void) { return W_has_oob; }
static inline struct u128 get_oob_data_for_last_remote_device(void) { ++G_f.oob_get; return W_oob; }
/* pairing method selection (C36): result symbolic, the arguments it was asked with recorded */
struct { uint8_t io, oob_flag; bool has_oob; bool has_oob_after_request; } G_sel;
static inline enum legacy_pairing_algorithm legacy_select_pairing_algorithm(uint8_t io, uint8_t oob_flag, uint8_t auth_req, bool has_oob) { G_sel.io = io; G_sel.oob_flag = oob_flag; G_sel.has_oob = has_oob; G_sel.has_oob_after_request = G_s.oob_requests == 1; return (enum legacy_pairing_algorithm)W_sel_legacy; }
static inline enum lesc_pairing_algorithm lesc_select_pairing_algorithm(uint8_t io, uint8_t oob_flag, uint8_t auth_req, bool has_oob) { G_sel.io = io; G_sel.oob_flag = oob_flag; G_sel.has_oob = has_oob; G_sel.has_oob_after_request = G_s.oob_requests == 1; return (enum lesc_pairing_algorithm)W_sel_lesc; }
static inline struct u24 legacy_local_io_caps(void) { return W_local_io; }
static inline struct u24 lesc_local_io_caps(void) { return W_local_io; }
static inline struct u128 legacy_c1_p1(const uint8_t* in, const uint8_t* out, int ra, int la) { return W_p1; }
static inline struct u128 legacy_c1_p2(int ra, int la) { return W_p2; }

/* ---- witnesses and shapes */
size_t W_in_size; uint8_t W_in[8]; int W_state; size_t W_out_size; int W_legacy_algo, W_lesc_algo; struct u128 W_mconfirm, W_srand_stored, W_local_nonce, W_passkey;
#define IN_OK(input, in_size)  (in_size <= 80 && in_size == W_in_size && __CPROVER_is_fresh(input, 80) && input[0] == W_in[0] && input[1] == W_in[1] && input[2] == W_in[2] && input[3] == W_in[3] && input[4] == W_in[4] && input[5] == W_in[5] && input[6] == W_in[6])
#define OUT_OK(output, out_size) (__CPROVER_is_fresh(out_size, sizeof(size_t)) && *out_size >= 65 && *out_size <= 80 && *out_size == W_out_size && __CPROVER_is_fresh(output, 80))
#define ST_OK(state) (__CPROVER_is_fresh(state, sizeof(struct conn)) && (int)(state)->state_ == W_state && W_state >= sm_pairing_state_idle && W_state <= sm_pairing_state_lesc_pairing_random_exchanged \
   && (state)->legacy_algo == W_legacy_algo && (state)->lesc_algo == W_lesc_algo && VAL((state)->mconfirm) == VAL(W_mconfirm) && VAL((state)->srand) == VAL(W_srand_stored) && VAL((state)->local_nonce) == VAL(W_local_nonce) && VAL((state)->passkey) == VAL(W_passkey) \
   && G_s.resets == 0 && G_s.completed_legacy == 0 && G_s.completed_lesc == 0 && G_s.oob_requests == 0 && G_s.set_algo_legacy == 0 && G_s.set_algo_lesc == 0 && G_f.c1_calls == 0 && G_f.f6_calls == 0 && G_f.s1_calls == 0)
#define FAILED(code) (*out_size == 2 && output[0] == 0x05 && output[1] == (code) && state->state_ == sm_pairing_state_idle && G_s.resets == 1 && G_s.completed_legacy == 0 && G_s.completed_lesc == 0)
#define PARAMS_OK (W_in[1] <= 4 && (W_in[2] & ~1) == 0 && W_in[4] >= 7 && W_in[4] <= 16 && (W_in[5] & 0xf0) == 0 && (W_in[6] & 0xf0) == 0)
#define HANDLER(name) void name(const uint8_t* input, size_t in_size, uint8_t* output, size_t* out_size, struct conn* state) \
  __CPROVER_requires(IN_OK(input, in_size) && OUT_OK(output, out_size) && ST_OK(state))
#define HFRAME __CPROVER_assigns(*out_size, __CPROVER_object_upto(output, 80), __CPROVER_object_whole(state), G_s, G_f, G_sel)
void error_response(enum sm_error_codes error_code, uint8_t* output, size_t* out_size)
__CPROVER_requires(__CPROVER_rw_ok(output, 2) && __CPROVER_rw_ok(out_size, sizeof(size_t)))
__CPROVER_ensures(*out_size == 2 && output[0] == 0x05 && output[1] == (uint8_t)error_code) __CPROVER_assigns(*out_size, __CPROVER_object_upto(output, 2))
{{error_response}}
/* a failed step answers Pairing Failed AND returns the connection to idle */
void error_response4(enum sm_error_codes error_code, uint8_t* output, size_t* out_size, struct conn* state)
__CPROVER_requires(__CPROVER_rw_ok(output, 2) && __CPROVER_rw_ok(out_size, sizeof(size_t)) && __CPROVER_rw_ok(state, sizeof(*state)))
__CPROVER_ensures(*out_size == 2 && output[0] == 0x05 && output[1] == (uint8_t)error_code && state->state_ == sm_pairing_state_idle && G_s.resets == __CPROVER_old(G_s.resets) + 1)
__CPROVER_assigns(*out_size, __CPROVER_object_upto(output, 2), state->state_, G_s.resets)
{{error_response4}}
void create_pairing_response(uint8_t* output, size_t* out_size, struct u24 io_caps)
__CPROVER_requires(__CPROVER_rw_ok(output, 7) && __CPROVER_rw_ok(out_size, sizeof(size_t)))
__CPROVER_ensures(*out_size == 7 && output[0] == 0x02 && output[1] == io_caps.b[0] && output[2] == io_caps.b[1] && output[3] == io_caps.b[2] && output[4] == 16 && output[5] == 0 && output[6] == G_request_key_flags)
__CPROVER_assigns(*out_size, __CPROVER_object_upto(output, 7))
{{create_pairing_response}}

/* ================= legacy pairing: request (idle) -> confirm (requested) -> random (confirmed) */
#define REQ_ACCEPT (W_in_size == 7 && W_state == sm_pairing_state_idle && PARAMS_OK)
HANDLER(legacy_handle_pairing_request)
__CPROVER_ensures(REQ_ACCEPT ? (*out_size == 7 && output[0] == 0x02 && state->state_ == sm_pairing_state_legacy_pairing_requested && G_s.resets == 0) : FAILED(W_in_size != 7 ? 0x0a : W_state != sm_pairing_state_idle ? 0x08 : 0x0a))
/* the method is selected from this request's IO capability and OOB flag and from whether OOB data exists for THIS peer (asked for now) */
__CPROVER_ensures(REQ_ACCEPT ==> (state->legacy_algo == W_sel_legacy && G_s.set_algo_legacy == 1 && G_sel.io == W_in[1] && G_sel.oob_flag == W_in[2] && G_sel.has_oob == W_has_oob
   && G_s.oob_requests == 1 && G_s.oob_request_addr == state->remote_address && G_sel.has_oob_after_request))
HFRAME
{{legacy_request}}
struct u128 legacy_create_temporary_key(struct conn* state)
__CPROVER_requires(__CPROVER_is_fresh(state, sizeof(struct conn)) && state->legacy_algo == W_legacy_algo)
__CPROVER_ensures(VAL(__CPROVER_return_value) == (W_legacy_algo == legacy_pairing_algorithm_oob_authentication ? VAL(W_oob) : (W_legacy_algo == legacy_pairing_algorithm_passkey_entry_display || W_legacy_algo == legacy_pairing_algorithm_passkey_entry_input) ? VAL(W_passkey_new) : (u128_t)0))
__CPROVER_ensures((W_legacy_algo == legacy_pairing_algorithm_passkey_entry_display || W_legacy_algo == legacy_pairing_algorithm_passkey_entry_input) ==> VAL(state->passkey) == VAL(W_passkey_new))
__CPROVER_assigns(state->passkey, G_f.oob_get)
{{legacy_create_tk}}
struct u128 legacy_temporary_key(const struct conn* state)
__CPROVER_requires(__CPROVER_is_fresh(state, sizeof(struct conn)) && state->legacy_algo == W_legacy_algo && VAL(state->passkey) == VAL(W_passkey))
__CPROVER_ensures(VAL(__CPROVER_return_value) == (W_legacy_algo == legacy_pairing_algorithm_oob_authentication ? VAL(W_oob) : (W_legacy_algo == legacy_pairing_algorithm_passkey_entry_display || W_legacy_algo == legacy_pairing_algorithm_passkey_entry_input) ? VAL(W_passkey) : (u128_t)0))
__CPROVER_assigns(G_f.oob_get)
{{legacy_tk}}
#define CONFIRM_ACCEPT (W_in_size == 17 && W_state == sm_pairing_state_legacy_pairing_requested)
HANDLER(legacy_handle_pairing_confirm)
__CPROVER_ensures(CONFIRM_ACCEPT ? (*out_size == 17 && output[0] == 0x03 && state->state_ == sm_pairing_state_legacy_pairing_confirmed && G_s.resets == 0 && (G_pre_j < 16 ==> (output[1 + G_pre_j] == W_c1_out[0].b[G_pre_j] && state->mconfirm.b[G_pre_j] == input[1 + G_pre_j])))
                                 : FAILED(W_in_size != 17 ? 0x0a : 0x08))
/* the own random value is not part of the confirm response */
__CPROVER_ensures(G_s.completed_legacy == 0)
HFRAME
{{legacy_confirm}}
#define RANDOM_ACCEPT (W_in_size == 17 && W_state == sm_pairing_state_legacy_pairing_confirmed && VAL(W_c1_out[0]) == VAL(W_mconfirm))
HANDLER(legacy_handle_pairing_random)
/* Srand is revealed, and the pairing completed with STK = s1( TK, Srand, Mrand ), only after the central's confirm value was verified against its Mrand */
__CPROVER_ensures(RANDOM_ACCEPT ? (*out_size == 17 && output[0] == 0x04 && (G_pre_j < 16 ==> output[1 + G_pre_j] == W_srand_stored.b[G_pre_j]) && state->state_ == sm_pairing_state_pairing_completed && G_s.completed_legacy == 1 && G_s.resets == 0
                                   && VAL(G_s.completed_key) == VAL(W_s1_out) && VAL(G_f.s1_srand) == VAL(W_srand_stored) && (G_pre_j < 16 ==> (G_f.s1_mrand.b[G_pre_j] == input[1 + G_pre_j] && G_f.c1_rand.b[G_pre_j] == input[1 + G_pre_j])))
                                : FAILED(W_in_size != 17 ? 0x0a : W_state != sm_pairing_state_legacy_pairing_confirmed ? 0x08 : 0x04))
HFRAME
{{legacy_random}}

/* ================= LE secure connections: request (idle) -> public key (requested) -> [confirm sent by l2cap_output] -> random (confirm_send) -> DHKey check (random_exchanged / user response) */
#define LESC_REQ_ACCEPT (REQ_ACCEPT && (W_in[3] & 0x08) != 0)
HANDLER(lesc_handle_pairing_request)
__CPROVER_ensures(LESC_REQ_ACCEPT ? (*out_size == 7 && output[0] == 0x02 && state->state_ == sm_pairing_state_lesc_pairing_requested && G_s.resets == 0 && state->lesc_algo == W_sel_lesc && G_sel.io == W_in[1] && G_sel.oob_flag == W_in[2]
                                     && state->remote_io.b[0] == W_in[1] && state->remote_io.b[1] == W_in[2] && state->remote_io.b[2] == W_in[3])
                                  : FAILED(W_in_size != 7 ? 0x0a : W_state != sm_pairing_state_idle ? 0x08 : !PARAMS_OK ? 0x0a : 0x05))
HFRAME
{{lesc_request}}
#define PK_ACCEPT (W_in_size == 65 && W_state == sm_pairing_state_lesc_pairing_requested && W_valid_key)
HANDLER(lesc_handle_pairing_public_key)
__CPROVER_ensures(PK_ACCEPT ? (*out_size == 65 && output[0] == 0x0c && state->state_ == sm_pairing_state_lesc_public_keys_exchanged && G_s.resets == 0 && VAL(state->local_nonce) == VAL(W_nonce))
                            : FAILED(W_in_size != 65 ? 0x0a : W_state != sm_pairing_state_lesc_pairing_requested ? 0x08 : 0x0a))
HFRAME
{{lesc_public_key}}
#define USER_ASKED (W_lesc_algo == lesc_pairing_algorithm_numeric_comparison)
#define LRANDOM_ACCEPT (W_in_size == 17 && W_state == sm_pairing_state_lesc_pairing_confirm_send && !(USER_ASKED && W_user == 2))
HANDLER(lesc_handle_pairing_random)
/* the own nonce Nb is revealed only after the confirm value Cb was sent (state confirm_send) and the central's Na arrived; never after the user said no */
__CPROVER_ensures(LRANDOM_ACCEPT ? (*out_size == 17 && output[0] == 0x04 && (G_pre_j < 16 ==> output[1 + G_pre_j] == W_local_nonce.b[G_pre_j]) && G_s.resets == 0 && G_s.completed_lesc == 0
                                    && state->state_ == (!USER_ASKED ? sm_pairing_state_lesc_pairing_random_exchanged : W_user == 0 ? sm_pairing_state_user_response_wait : sm_pairing_state_user_response_success))
                                 : FAILED(W_in_size != 17 ? 0x0a : W_state != sm_pairing_state_lesc_pairing_confirm_send ? 0x08 : 0x01))
HFRAME
{{lesc_random}}
#define DH_STATE (W_state == sm_pairing_state_lesc_pairing_random_exchanged || W_state == sm_pairing_state_user_response_wait || W_state == sm_pairing_state_user_response_failed || W_state == sm_pairing_state_user_response_success)
#define DH_CHECKED (W_in_size == 17 && (W_state == sm_pairing_state_lesc_pairing_random_exchanged || W_state == sm_pairing_state_user_response_success))
#define DH_ACCEPT (DH_CHECKED && VAL(W_f6_out[0]) == VALP(input + 1))
HANDLER(lesc_handle_pairing_dhkey_check)
/* the own DHKey check Eb is sent, and the pairing completed with the LTK of f5, only after the central's check Ea was verified */
__CPROVER_ensures(DH_ACCEPT ==> (*out_size == 17 && output[0] == 0x0d && (G_pre_j < 16 ==> output[1 + G_pre_j] == W_f6_out[1].b[G_pre_j]) && state->state_ == sm_pairing_state_pairing_completed && G_s.completed_lesc == 1 && G_s.resets == 0 && VAL(G_s.completed_key) == VAL(W_ltk)))
__CPROVER_ensures((DH_CHECKED && !DH_ACCEPT) ==> FAILED(0x0b))
/* still waiting for the user: no answer yet, nothing changes */
__CPROVER_ensures((W_in_size == 17 && W_state == sm_pairing_state_user_response_wait) ==> (*out_size == 0 && state->state_ == sm_pairing_state_user_response_wait && G_s.completed_lesc == 0 && G_s.resets == 0))
__CPROVER_ensures((W_in_size == 17 && W_state == sm_pairing_state_user_response_failed) ==> FAILED(0x01))
__CPROVER_ensures(W_in_size != 17 ==> FAILED(0x0a))
__CPROVER_ensures((W_in_size == 17 && !DH_STATE) ==> FAILED(0x08))
HFRAME
{{lesc_dhkey}}
bool lesc_security_manager_output_available(struct conn* state)
__CPROVER_requires(__CPROVER_is_fresh(state, sizeof(struct conn)) && (int)state->state_ == W_state)
__CPROVER_ensures(__CPROVER_return_value == (W_state == sm_pairing_state_lesc_public_keys_exchanged || W_state == sm_pairing_state_user_response_success || W_state == sm_pairing_state_user_response_failed))
__CPROVER_assigns()
{{lesc_avail}}
void lesc_l2cap_output(uint8_t* output, size_t* out_size, struct conn* state)
__CPROVER_requires(OUT_OK(output, out_size) && ST_OK(state) && (W_state == sm_pairing_state_lesc_public_keys_exchanged || W_state == sm_pairing_state_user_response_success || W_state == sm_pairing_state_user_response_failed))
/* after the public keys: the confirm value Cb = f4( PKb, PKa, Nb, 0 ), not Nb itself */
__CPROVER_ensures(W_state == sm_pairing_state_lesc_public_keys_exchanged ==> (*out_size == 17 && output[0] == 0x03 && (G_pre_j < 16 ==> output[1 + G_pre_j] == W_f4_out.b[G_pre_j]) && state->state_ == sm_pairing_state_lesc_pairing_confirm_send && G_s.completed_lesc == 0))
/* after the user's yes (the central's DHKey check arrived while waiting): Eb and completion */
__CPROVER_ensures(W_state == sm_pairing_state_user_response_success ==> (*out_size == 17 && output[0] == 0x0d && state->state_ == sm_pairing_state_pairing_completed && G_s.completed_lesc == 1 && VAL(G_s.completed_key) == VAL(W_ltk)))
__CPROVER_ensures(W_state == sm_pairing_state_user_response_failed ==> FAILED(0x01))
HFRAME
{{lesc_output}}
/* ================= legacy + LESC */
HANDLER(handle_pairing_request)
__CPROVER_ensures(REQ_ACCEPT ? (*out_size == 7 && output[0] == 0x02 && G_s.resets == 0 && state->state_ == ((W_in[3] & 0x08) ? sm_pairing_state_lesc_pairing_requested : sm_pairing_state_legacy_pairing_requested))
                             : FAILED(W_in_size != 7 ? 0x0a : W_state != sm_pairing_state_idle ? 0x08 : 0x0a))
/* either protocol: the method is selected with the OOB information of THIS peer, asked for before the selection */
__CPROVER_ensures(REQ_ACCEPT ==> (G_sel.io == W_in[1] && G_sel.oob_flag == W_in[2] && G_sel.has_oob == W_has_oob && G_s.oob_requests == 1 && G_s.oob_request_addr == state->remote_address && G_sel.has_oob_after_request
   && ((W_in[3] & 0x08) ? (state->lesc_algo == W_sel_lesc && G_s.set_algo_lesc == 1 && G_s.set_algo_legacy == 0) : (state->legacy_algo == W_sel_legacy && G_s.set_algo_legacy == 1 && G_s.set_algo_lesc == 0))))
HFRAME
{{comb_request}}
"""

HARNESS = r"""
#define SETUP uint8_t* in; uint8_t* out; size_t* os; struct conn* st; W_in_size = nondet_size(); for (int k = 0; k < 8; ++k) W_in[k] = nondet_u8(); W_state = nondet_int(); W_out_size = nondet_size(); W_legacy_algo = nondet_int(); W_lesc_algo = nondet_int(); \
  W_valid_key = nondet_bool(); W_has_oob = nondet_bool(); W_sel_legacy = nondet_int(); W_sel_lesc = nondet_int(); W_user = nondet_int(); __CPROVER_assume(W_user >= 0 && W_user <= 2 && W_sel_legacy >= 0 && W_sel_legacy <= 3 && W_sel_lesc >= 0 && W_sel_lesc <= 4 && W_legacy_algo >= 0 && W_legacy_algo <= 3 && W_lesc_algo >= 0 && W_lesc_algo <= 4); \
  G_pre_j = nondet_size(); G_pre_j2 = nondet_size(); G_pre_j3 = nondet_size(); G_s = (struct s_rec){ 0 }; G_f = (struct f_rec){ 0 }; BT_KNOWN_EXCLUDE()
"""
HNAMES = ['legacy_handle_pairing_request', 'legacy_handle_pairing_confirm', 'legacy_handle_pairing_random', 'lesc_handle_pairing_request', 'lesc_handle_pairing_public_key', 'lesc_handle_pairing_random',
          'lesc_handle_pairing_dhkey_check', 'handle_pairing_request']
CODE_H = CODE + HARNESS + '\n'.join('void h_%s(void) { SETUP; %s(in, W_in_size, out, os, st); BT_CANARY(); }' % (n, n) for n in HNAMES) + r"""
void h_error_response(void) { SETUP; uint8_t o[2]; size_t z; error_response(nondet_int(), o, &z); BT_CANARY(); }
void h_error_response4(void) { SETUP; uint8_t o[2]; size_t z; struct conn c; error_response4(nondet_int(), o, &z, &c); BT_CANARY(); }
void h_create_pairing_response(void) { SETUP; uint8_t o[7]; size_t z; struct u24 io; create_pairing_response(o, &z, io); BT_CANARY(); }
void h_legacy_create_temporary_key(void) { SETUP; legacy_create_temporary_key(st); BT_CANARY(); }
void h_legacy_temporary_key(void) { SETUP; legacy_temporary_key(st); BT_CANARY(); }
void h_lesc_security_manager_output_available(void) { SETUP; lesc_security_manager_output_available(st); BT_CANARY(); }
void h_lesc_l2cap_output(void) { SETUP; lesc_l2cap_output(out, os, st); BT_CANARY(); }
"""
H_EX = {k: v for k, v in EX.items() if k not in ('leg_input', 'lesc_input', 'comb_input', 'lesc_l2_output', 'comb_l2_output', 'leg_l2_output')}
# ------------------------------------------------------------------ which handler a PDU reaches
D_CODE = CODE[:CODE.index('/* ================= legacy pairing')] + r"""
struct { int calls, called; } G_d;
enum { H_LEGACY_REQUEST = 1, H_LEGACY_CONFIRM, H_LEGACY_RANDOM, H_LESC_REQUEST, H_LESC_PUBLIC_KEY, H_LESC_RANDOM, H_LESC_DHKEY, H_REQUEST, H_LESC_OUTPUT, H_DISTRIBUTE };
#define STUB(name, id) void name(const uint8_t* input, size_t in_size, uint8_t* output, size_t* out_size, struct conn* state) __CPROVER_ensures(G_d.calls == __CPROVER_old(G_d.calls) + 1 && G_d.called == id) __CPROVER_assigns(G_d, *out_size, __CPROVER_object_upto(output, 80), __CPROVER_object_whole(state));
STUB(legacy_handle_pairing_request, H_LEGACY_REQUEST) STUB(legacy_handle_pairing_confirm, H_LEGACY_CONFIRM) STUB(legacy_handle_pairing_random, H_LEGACY_RANDOM) STUB(lesc_handle_pairing_request, H_LESC_REQUEST)
STUB(lesc_handle_pairing_public_key, H_LESC_PUBLIC_KEY) STUB(lesc_handle_pairing_random, H_LESC_RANDOM) STUB(lesc_handle_pairing_dhkey_check, H_LESC_DHKEY) STUB(handle_pairing_request, H_REQUEST)
void lesc_l2cap_output(uint8_t* output, size_t* out_size, struct conn* state) __CPROVER_ensures(G_d.calls == __CPROVER_old(G_d.calls) + 1 && G_d.called == H_LESC_OUTPUT) __CPROVER_assigns(G_d, *out_size, __CPROVER_object_upto(output, 80), __CPROVER_object_whole(state));
bool lesc_security_manager_output_available(struct conn* state)
__CPROVER_ensures(__CPROVER_return_value == (W_state == sm_pairing_state_lesc_public_keys_exchanged || W_state == sm_pairing_state_user_response_success || W_state == sm_pairing_state_user_response_failed)) __CPROVER_assigns();
#define DISPATCHED(id) (G_d.calls == 1 && G_d.called == (id))
#define NOT_SUPPORTED (G_d.calls == 0 && FAILED(0x07))
#define DPRE (IN_OK(input, in_size) && OUT_OK(output, out_size) && ST_OK(state) && G_d.calls == 0)
#define DFRAME __CPROVER_assigns(*out_size, __CPROVER_object_upto(output, 80), __CPROVER_object_whole(state), G_s, G_d)
#define OP W_in[0]
void legacy_l2cap_input(const uint8_t* input, size_t in_size, uint8_t* output, size_t* out_size, struct conn* state) __CPROVER_requires(DPRE)
__CPROVER_ensures(W_in_size == 0 ? (G_d.calls == 0 && FAILED(0x0a)) : OP == 0x01 ? DISPATCHED(H_LEGACY_REQUEST) : OP == 0x03 ? DISPATCHED(H_LEGACY_CONFIRM) : OP == 0x04 ? DISPATCHED(H_LEGACY_RANDOM) : NOT_SUPPORTED)
DFRAME
{{leg_input}}
void lesc_l2cap_input(const uint8_t* input, size_t in_size, uint8_t* output, size_t* out_size, struct conn* state) __CPROVER_requires(DPRE)
__CPROVER_ensures(W_in_size == 0 ? (G_d.calls == 0 && FAILED(0x0a)) : OP == 0x01 ? DISPATCHED(H_LESC_REQUEST) : OP == 0x0c ? DISPATCHED(H_LESC_PUBLIC_KEY) : OP == 0x04 ? DISPATCHED(H_LESC_RANDOM) : OP == 0x0d ? DISPATCHED(H_LESC_DHKEY) : NOT_SUPPORTED)
DFRAME
{{lesc_input}}
/* legacy + LESC: a Pairing Random belongs to the legacy protocol exactly when a legacy confirm was accepted before */
void comb_l2cap_input(const uint8_t* input, size_t in_size, uint8_t* output, size_t* out_size, struct conn* state) __CPROVER_requires(DPRE)
__CPROVER_ensures(W_in_size == 0 ? (G_d.calls == 0 && FAILED(0x0a)) : OP == 0x01 ? DISPATCHED(H_REQUEST) : OP == 0x03 ? DISPATCHED(H_LEGACY_CONFIRM)
                  : OP == 0x04 ? DISPATCHED(W_state == sm_pairing_state_legacy_pairing_confirmed ? H_LEGACY_RANDOM : H_LESC_RANDOM) : OP == 0x0c ? DISPATCHED(H_LESC_PUBLIC_KEY) : OP == 0x0d ? DISPATCHED(H_LESC_DHKEY) : NOT_SUPPORTED)
DFRAME
{{comb_input}}
#define AVAIL (W_state == sm_pairing_state_lesc_public_keys_exchanged || W_state == sm_pairing_state_user_response_success || W_state == sm_pairing_state_user_response_failed)
void legacy_l2cap_output(uint8_t* output, size_t* out_size, struct conn* state) __CPROVER_requires(OUT_OK(output, out_size) && ST_OK(state) && G_d.calls == 0 && G_s.distribute == 0)
__CPROVER_ensures(G_s.distribute == 1 && G_d.calls == 0 && state->state_ == (enum sm_pairing_state)W_state) DFRAME
{{leg_l2_output}}
void lesc_l2cap_output_(uint8_t* output, size_t* out_size, struct conn* state) __CPROVER_requires(OUT_OK(output, out_size) && ST_OK(state) && G_d.calls == 0 && G_s.distribute == 0)
__CPROVER_ensures(AVAIL ? DISPATCHED(H_LESC_OUTPUT) : (G_d.calls == 0 && *out_size == 0 && state->state_ == (enum sm_pairing_state)W_state)) DFRAME
{{lesc_l2_output}}
void comb_l2cap_output(uint8_t* output, size_t* out_size, struct conn* state) __CPROVER_requires(OUT_OK(output, out_size) && ST_OK(state) && G_d.calls == 0 && G_s.distribute == 0)
__CPROVER_ensures(AVAIL ? (DISPATCHED(H_LESC_OUTPUT) && G_s.distribute == 0) : (G_d.calls == 0 && G_s.distribute == 1 && state->state_ == (enum sm_pairing_state)W_state)) DFRAME
{{comb_l2_output}}
""" + HARNESS.replace('BT_KNOWN_EXCLUDE()', 'G_d.calls = 0; G_s.distribute = 0; BT_KNOWN_EXCLUDE()') + r"""
void h_legacy_l2cap_input(void) { SETUP; legacy_l2cap_input(in, W_in_size, out, os, st); BT_CANARY(); }
void h_lesc_l2cap_input(void) { SETUP; lesc_l2cap_input(in, W_in_size, out, os, st); BT_CANARY(); }
void h_comb_l2cap_input(void) { SETUP; comb_l2cap_input(in, W_in_size, out, os, st); BT_CANARY(); }
void h_legacy_l2cap_output(void) { SETUP; legacy_l2cap_output(out, os, st); BT_CANARY(); }
void h_lesc_l2cap_output_(void) { SETUP; lesc_l2cap_output_(out, os, st); BT_CANARY(); }
void h_comb_l2cap_output(void) { SETUP; comb_l2cap_output(out, os, st); BT_CANARY(); }
"""
D_EX = {k: v for k, v in EX.items() if k in ('sm_state', 'sm_err', 'sm_op', 'legacy_algo', 'lesc_algo', 'io_caps', 'default_mtu', 'error_response', 'error_response4', 'create_pairing_response', 'leg_input', 'lesc_input', 'comb_input',
                                              'lesc_l2_output', 'comb_l2_output', 'leg_l2_output') or k.startswith('K_') or k in BITS_EXTRACTS}
STUBS = HNAMES + ['lesc_l2cap_output', 'lesc_security_manager_output_available']
UNITS = [
    dict(name='handlers', extracts=H_EX, code=CODE_H, defines=['BT_NEED_COPY', 'BT_BYTES_MAX=64'], object_bits=11,
         enforce=['error_response', 'error_response4', 'create_pairing_response', 'legacy_create_temporary_key', 'legacy_temporary_key'] + HNAMES + ['lesc_security_manager_output_available', 'lesc_l2cap_output'],
         replace=['bt_copy_u8', 'error_response', 'error_response4', 'create_pairing_response', 'legacy_create_temporary_key', 'legacy_temporary_key']),
    dict(name='dispatch', extracts=D_EX, code=D_CODE, object_bits=11,
         enforce=['legacy_l2cap_input', 'lesc_l2cap_input', 'comb_l2cap_input', 'legacy_l2cap_output', 'lesc_l2cap_output_', 'comb_l2cap_output'],
         replace=STUBS + ['error_response', 'error_response4']),
]
META = dict(
    level='proof',
    explanation="security_manager.hpp, real bodies of all pairing handlers (legacy_handle_pairing_request / _confirm / _random, legacy_create_temporary_key, legacy_temporary_key, "
                "lesc_handle_pairing_request / _public_key / _random / _dhkey_check, lesc_security_manager_output_available, lesc_l2cap_output, the combined manager's "
                "handle_pairing_request, error_response (both), create_pairing_response) and of the three managers' l2cap_input / l2cap_output, for every PDU length and "
                "content, every pairing state, every stored method and every value of the cryptographic functions: each handler accepts its PDU exactly in its own state "
                "with its own length and valid parameters (legacy: request in idle, confirm in requested, random in confirmed; LESC: request in idle with the SC bit, public "
                "key in requested with a valid key, random after the confirm value was sent, DHKey check after the random / the user's answer) and then moves to exactly the "
                "next state; every other case answers Pairing Failed with the specified reason and returns to idle (error_response always resets); while the user has not "
                "answered a numeric comparison a DHKey check is kept unanswered. Legacy: Srand is put into the response, and the pairing completed with s1( TK, Srand, Mrand "
                "), only if c1( TK, Mrand, .. ) equals the stored Mconfirm. LESC: the first output after the key exchange is Cb = f4(..), Nb is sent only in answer to Na in "
                "state confirm_send, Eb is sent and the pairing completed with f5's LTK only if f6(..) equals the received Ea (directly or after the user's yes). "
                "Dispatch: every opcode reaches exactly the handler of that step (combined manager: Pairing Random goes to the legacy handler exactly in state "
                "legacy_pairing_confirmed), anything else is 'command not supported' + reset. The method stored by a Pairing Request is the one selected from that "
                "request's IO capability / OOB flag and the OOB information asked for this peer before the selection (legacy and combined manager).",
    assumptions=["the connection data classes are represented by an operational stand-in whose functions assert the classes' own state asserts (C33 / C35 prove the real "
                 "transitions); SecurityFunctions (c1, s1, f4, f5, f6, p256, key generation: C37), IO capability options and method selection (C36), the OOB call back and key "
                 "distribution (C34) are abstract with symbolic results",
                 "protocol order over a whole exchange is the induction over these per-PDU contracts (each accept names its one predecessor state); the induction itself is on paper",
                 "the LESC-only manager does not ask the OOB call back before selecting the method (has_oob_data_for_remote_device() keeps its last value): see C36's findings"],
    trusted_base=["application call backs of the IO capability options"],
)
