#!/bin/bash
# Runs the repository's pinned baseline (70 tests) with the verification guard OFF (BLUETOE_VERIF undefined).
# Targets that never compiled in this sandbox (not part of the baseline) are skipped by ninja -k 0.
set -u
cmake --build /repo/_build -j16 -- -k 0 > /dev/null 2>&1
out=$(ctest --test-dir /repo/_build -j8 --timeout 900 2>&1)
passed=$(echo "$out" | grep -c "   Passed")
failed=$(echo "$out" | grep -c "\*\*\*Failed\|\*\*\*Exception\|\*\*\*Timeout")
echo "baseline: passed=$passed failed=$failed (not-run targets are outside the 70-test baseline)"
echo "$out" | grep "\*\*\*" || true
[ "$passed" -ge 70 ] && [ "$failed" -eq 0 ]
