#!/bin/bash
# usage: try_patch.sh <patch.diff> <ID> [<ID> ...]   -- runs checks against a scratch copy of /repo with the patch applied
# (development aid: /repo itself is not touched, no evidence is written)
set -e
patch=$(realpath "$1"); shift
wt=$(mktemp -d /tmp/trypatch.XXXXXX)
git -C /repo worktree add -q --detach "$wt" HEAD
trap 'git -C /repo worktree remove --force "$wt"' EXIT
git -C "$wt" apply "$patch"
rc=0
for id in "$@"; do
  BLUETOE_REPO="$wt" VERIF_BUILD="$wt/_verif_build" python3 /verif/tools/check.py check "$id" || rc=$?
done
exit $rc
