#!/usr/bin/env python3
"""Validates MANIFEST.json and every evidence file against the schemas and against each other: an evidence file must
carry the level its check claims in MANIFEST.json, report no violation, and (proof level) discharged == obligations.
Run before every commit of /verif: evidence written while /repo carried a deliberately broken change must not be committed."""
import json, sys, glob, os
import jsonschema
man = json.load(open('/verif/MANIFEST.json'))
jsonschema.validate(man, json.load(open('/root/.vp/MANIFEST.schema.json')))
es = json.load(open('/root/.vp/EVIDENCE.schema.json'))
bad = []
for c in man['checks']:
    f = c['evidence_file']
    if not os.path.exists(f):
        bad.append("%s: no evidence file" % c['property_id']); continue
    e = json.load(open(f))
    jsonschema.validate(e, es)
    cov = e['coverage']
    if e['property_id'] != c['property_id']:
        bad.append("%s: evidence is for %s" % (c['property_id'], e['property_id']))
    if e['level'] != c['level_claimed']['category']:
        bad.append("%s: evidence level %s, MANIFEST claims %s" % (c['property_id'], e['level'], c['level_claimed']['category']))
    if e.get('violations'):
        bad.append("%s: evidence records %d violation(s)" % (c['property_id'], e['violations']))
    if cov.get('undecided_units'):
        bad.append("%s: undecided units %s" % (c['property_id'], cov['undecided_units']))
    if cov.get('discharged') != cov.get('obligations') or not cov.get('obligations'):
        bad.append("%s: discharged %s != obligations %s" % (c['property_id'], cov.get('discharged'), cov.get('obligations')))
claimed = {c['property_id'] for c in man['checks']}
for f in sorted(glob.glob('/verif/evidence/*.json')):
    if os.path.basename(f)[:-5] not in claimed:
        bad.append("%s: evidence file for a property that is not claimed" % f)
props = [json.loads(l)['id'] for l in open('/verif/properties.jsonl')]
na = {n['property_id'] for n in man.get('not_applicable', [])}
for p in props:
    if (p in claimed) == (p in na):
        bad.append("%s: must be either claimed or listed under not_applicable" % p)
for b in bad:
    print("INVALID " + b)
print('schemas ok, %d checks, %d evidence files, %d inconsistencies' % (len(man['checks']), len(glob.glob('/verif/evidence/*.json')), len(bad)))
sys.exit(1 if bad else 0)
