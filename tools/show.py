#!/usr/bin/env python3
"""show.py <repo-relative file> [from] [to] : print the source without comments/blank lines, with line numbers"""
import sys, os
sys.path.insert(0, os.path.dirname(os.path.abspath(__file__)))
import extract as X
raw, txt = X.load(sys.argv[1])
a = int(sys.argv[2]) if len(sys.argv) > 2 else 1
b = int(sys.argv[3]) if len(sys.argv) > 3 else 10**9
for i, l in enumerate(txt.split('\n'), 1):
    if a <= i <= b and l.strip():
        print("%d: %s" % (i, l))
