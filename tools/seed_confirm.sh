#!/bin/bash
# usage: seed_confirm.sh <seed-name> <agent-worktree> <checks...>
# Imports an agent's deliverables (out/patch.diff, demo.cpp, demo_build.txt, notes.md) into /verif/seeded/<seed-name>/,
# confirms them in a fresh scratch worktree of /repo HEAD (patch applies and compiles, 70 baseline tests pass, the demo
# fails with the patch and passes without it) and runs the given checks against the patched scratch copy.
set -u
name=$1; src=$2; shift 2
dst=/verif/seeded/$name
mkdir -p $dst
[ -f $dst/patch.diff ] || cp $src/out/patch.diff $dst/patch.diff
for f in demo.cpp demo_build.txt notes.md; do [ -f $src/out/$f ] && cp $src/out/$f $dst/; done
[ -d $src/out/nrf_stub ] && cp -r $src/out/nrf_stub $dst/
# any other helper directory of the demo (e.g. out/stub) is kept as well
for d in $src/out/*/; do [ -d "$d" ] && [ "$(basename $d)" != nrf_stub ] && cp -r "$d" $dst/; done
log=$dst/confirm.log; : > $log
wt=$(mktemp -d /tmp/seedconf.XXXXXX)
git -C /repo worktree add -q --detach $wt HEAD
srcname=$(basename $src)
# the demo is compiled from <scratch>/out/demo.cpp, where the agent wrote it: includes relative to that place keep working
mkdir -p $wt/out; cp $dst/demo.cpp $wt/out/demo.cpp
demo_cmd=$(sed "s|/tmp/$srcname/out/nrf_stub|$dst/nrf_stub|g; s|/tmp/$srcname/out/stub|$dst/stub|g; s|/tmp/$srcname/out/demo.cpp|$wt/out/demo.cpp|g; s|/tmp/$srcname/out/demo|$wt/demo_bin|g; s|/tmp/$srcname|$wt|g" $dst/demo_build.txt | head -1)
{
echo "== demo on unchanged tree"; ( eval "$demo_cmd" ) >> $log 2>&1; $wt/demo_bin > $wt/demo0.out 2>&1; rc0=$?; tail -2 $wt/demo0.out; echo "demo exit (unchanged) = $rc0"
echo "== apply patch"; git -C $wt apply $dst/patch.diff && echo applied || { echo "PATCH DOES NOT APPLY"; }
echo "== demo with patch"; ( eval "$demo_cmd" ) 2>&1 | tail -3; $wt/demo_bin > $wt/demo1.out 2>&1; rc1=$?; tail -3 $wt/demo1.out; echo "demo exit (patched) = $rc1"
echo "== baseline tests with patch"
cmake -G Ninja -S $wt -B $wt/_build -DCMAKE_BUILD_TYPE=RelWithDebInfo -DCMAKE_CXX_FLAGS=-Wno-error -DBLUETOE_BUILD_UNIT_TESTS=ON > /dev/null 2>&1
cmake --build $wt/_build -j8 -- -k 0 > $wt/build.out 2>&1
out=$(ctest --test-dir $wt/_build -j8 --timeout 900 2>&1)
echo "tests passed: $(echo "$out" | grep -c '   Passed')  failed: $(echo "$out" | grep -c '\*\*\*Failed\|\*\*\*Exception\|\*\*\*Timeout')"
echo "== checks against the patched scratch copy"
for id in "$@"; do
  BLUETOE_REPO=$wt VERIF_BUILD=$wt/_verif_build python3 /verif/tools/check.py check $id 2>&1 | grep -v "^  failed obl" | sed "s|$wt|<scratch>|g" | tail -6; echo "check $id exit = ${PIPESTATUS[0]}"
done
} >> $log 2>&1
git -C /repo worktree remove --force $wt
# meta.json: which property, what the change needs in order to manifest (NEEDS=... from the caller / notes.md), what was run and seen
python3 - "$name" "$dst" "$*" <<'PY'
import json, os, re, sys
name, dst, checks = sys.argv[1], sys.argv[2], sys.argv[3].split()
log = open(os.path.join(dst, 'confirm.log'), errors='replace').read()
def grab(pat):
    m = re.search(pat, log); return m.group(1) if m else None
meta = dict(
    seed=name, property=name.split('_')[0],
    needs_to_manifest=os.environ.get('NEEDS') or 'see notes.md',
    origin='written by an independent sub-agent that saw only the property text and a scratch worktree of /repo (nothing from /verif)',
    ran=['demo on the unchanged tree (scratch worktree of /repo HEAD)', 'git apply patch.diff', 'demo with the patch',
         'cmake + ninja + ctest of the 70-test baseline with the patch', 'tools/check.py check <id> against the patched scratch copy for: ' + ' '.join(checks)],
    demo_exit_unchanged=grab(r'demo exit \(unchanged\) = (\d+)'), demo_exit_patched=grab(r'demo exit \(patched\) = (\d+)'),
    baseline_with_patch=grab(r'(tests passed: \d+  failed: \d+)'),
    checks={c: dict(exit=grab(r'check %s exit = (\d+)' % c), violation=bool(re.search(r'VIOLATION property=%s' % c, log))) for c in checks},
)
json.dump(meta, open(os.path.join(dst, 'meta.json'), 'w'), indent=1)
print(json.dumps(meta, indent=1))
PY
tail -30 $log
