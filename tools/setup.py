#!/usr/bin/env python3
"""Offline setup: nothing to build (pure python + pre-installed cbmc/g++); verifies the tools are there."""
import shutil, subprocess, sys, os
ok = True
for t in ('cbmc', 'goto-cc', 'goto-instrument', 'g++', 'python3'):
    p = shutil.which(t)
    print("%-16s %s" % (t, p))
    ok = ok and bool(p)
os.makedirs(os.path.join(os.path.dirname(os.path.dirname(os.path.abspath(__file__))), 'build'), exist_ok=True)
print(subprocess.run(['cbmc', '--version'], stdout=subprocess.PIPE).stdout.decode().strip())
sys.exit(0 if ok else 1)
