#!/bin/bash
# Runs every claimed check the way the acceptance harness does (quick tier, evidence file removed first) and then
# validates MANIFEST.json against the rewritten evidence.  Exit 0 only if every check exits 0 without a VIOLATION line.
cd /verif || exit 2
export VERIF_TIER=${VERIF_TIER:-quick} VERIF_SEED=${VERIF_SEED:-1}
python3 tools/setup.py > /dev/null || exit 2
rc=0
for id in $(python3 -c "import json; print(' '.join(c['property_id'] for c in json.load(open('MANIFEST.json'))['checks']))"); do
  rm -f evidence/$id.json
  out=$(python3 tools/check.py check $id --tier $VERIF_TIER 2>&1); e=$?
  echo "$out" | tail -1
  if [ $e -ne 0 ] || echo "$out" | grep -q "^VIOLATION"; then echo "  -> $id: exit $e"; rc=1; fi
done
python3-vt tools/validate.py || rc=1
exit $rc
