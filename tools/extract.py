#!/usr/bin/env python3
"""
Mechanical C++ -> C extractor for bluetoe function bodies (DESIGN.md 3.2).

Nothing in here knows what a function is supposed to do.  It cuts text out of
/repo's working tree, applies a fixed, ordered list of *syntactic* rewrite
rules and reports which rule fired how often.  Per-unit rules can only be
regex -> text substitutions with a declared fire count; a rule that does not
fire as declared raises ExtractionError (exit 2 in the driver, never a
verdict).
"""
import hashlib
import os
import re

REPO = os.environ.get("BLUETOE_REPO", "/repo")


class ExtractionError(Exception):
    pass


# ----------------------------------------------------------------------------
# lexical helpers
# ----------------------------------------------------------------------------
def strip_comments(src):
    """Replace comments by blanks, keep newlines (line numbers stay valid).
    String and char literals are left intact."""
    out = []
    i, n = 0, len(src)
    while i < n:
        c = src[i]
        if c == '/' and i + 1 < n and src[i + 1] == '/':
            j = src.find('\n', i)
            if j < 0:
                j = n
            out.append(' ' * (j - i))
            i = j
        elif c == '/' and i + 1 < n and src[i + 1] == '*':
            j = src.find('*/', i + 2)
            if j < 0:
                raise ExtractionError("unterminated comment")
            seg = src[i:j + 2]
            out.append(''.join(ch if ch == '\n' else ' ' for ch in seg))
            i = j + 2
        elif c == '"' or c == "'":
            j = i + 1
            while j < n and src[j] != c:
                if src[j] == '\\':
                    j += 1
                j += 1
            out.append(src[i:j + 1])
            i = j + 1
        else:
            out.append(c)
            i += 1
    return ''.join(out)


def match_close(src, i, open_ch, close_ch):
    """src[i] == open_ch; return index of the matching close_ch."""
    assert src[i] == open_ch, (src[i:i + 20], open_ch)
    depth = 0
    n = len(src)
    j = i
    while j < n:
        c = src[j]
        if c == '"' or c == "'":
            k = j + 1
            while k < n and src[k] != c:
                if src[k] == '\\':
                    k += 1
                k += 1
            j = k + 1
            continue
        if c == open_ch:
            depth += 1
        elif c == close_ch:
            depth -= 1
            if depth == 0:
                return j
        j += 1
    raise ExtractionError("unbalanced %s%s starting at offset %d" % (open_ch, close_ch, i))


def line_of(src, off):
    return src.count('\n', 0, off) + 1


_cache = {}


GUARD = 'BLUETOE_VERIF'


def strip_guarded(src):
    """The verified text is the production code, i.e. the guard-OFF view: blank the lines between
    '#if defined BLUETOE_VERIF' / '#ifdef BLUETOE_VERIF' and the matching '#else' or '#endif' (hook code) and the
    directive lines themselves; keep the '#else' branch.  Line numbers are preserved."""
    out = []
    state = None   # None | 'hook' | 'else'
    depth = 0
    for ln in src.split('\n'):
        st = ln.strip()
        if state is None:
            if re.match(r'#\s*(ifdef\s+%s\b|if\s+defined\s*\(?\s*%s\b)' % (GUARD, GUARD), st):
                state, depth = 'hook', 0
                out.append('')
                continue
            out.append(ln)
            continue
        if re.match(r'#\s*if', st):
            depth += 1
        elif re.match(r'#\s*endif', st):
            if depth == 0:
                state = None
                out.append('')
                continue
            depth -= 1
        elif re.match(r'#\s*else', st) and depth == 0:
            state = 'else'
            out.append('')
            continue
        out.append('' if state == 'hook' else ln)
    if state is not None:
        raise ExtractionError("unterminated #if %s block" % GUARD)
    return '\n'.join(out)


def load(file):
    path = os.path.join(REPO, file)
    if path not in _cache:
        with open(path, encoding='utf-8', errors='replace') as f:
            raw = f.read()
        _cache[path] = (raw, strip_comments(strip_guarded(raw)))
    return _cache[path]


def clear_cache():
    _cache.clear()


def find_once(pattern, text, what, start=0, end=None):
    sub = text[start:end]
    ms = list(re.finditer(pattern, sub, re.S))
    if len(ms) != 1:
        raise ExtractionError("%s: locate pattern %r matched %d times (need exactly 1)" % (what, pattern, len(ms)))
    m = ms[0]
    return m.start() + start, m.end() + start


def scope_range(text, scope, what):
    """scope: regex or list of regexes (nested).  Returns (start,end) offsets of
    the brace-enclosed body following the (unique) match."""
    lo, hi = 0, len(text)
    scopes = [scope] if isinstance(scope, str) else list(scope or [])
    for sc in scopes:
        s, e = find_once(sc, text, what + " scope", lo, hi)
        b = text.find('{', e, hi)
        if b < 0:
            raise ExtractionError("%s: no '{' after scope %r" % (what, sc))
        # there must be no ';' between scope match and '{' (would be a forward declaration)
        if ';' in text[e:b]:
            raise ExtractionError("%s: scope %r matches a declaration, not a definition" % (what, sc))
        c = match_close(text, b, '{', '}')
        lo, hi = b + 1, c
    return lo, hi


# ----------------------------------------------------------------------------
# generic rewrite rules (fixed; listed in every evidence file)
# ----------------------------------------------------------------------------
GENERIC_RULES_DOC = [
    "std::<fixed-width/size types> -> <stdint.h>/<stddef.h> names",
    "static_cast/reinterpret_cast/const_cast<T>(e) -> ((T)(e))",
    "nullptr -> 0 ; and/or/not -> && || !",
    "auto / const auto -> __auto_type (GNU C)",
    "assert(e) -> BT_ASSERT(e) == __CPROVER_assert(e, \"repo assert\"); static_assert(e, msg) inside a body -> BT_STATIC_ASSERT(e, msg) == __CPROVER_assert(e, ...) (checked, not dropped)",
    "static_cast<void>(x); -> (void)x;",
    "constexpr -> const ; 'static const(expr)' local -> const",
    "this-> -> self-> ; bare identifier with trailing underscore -> self-><id> (member naming convention of bluetoe), unless excluded per unit",
    "std::min/std::max -> BT_MIN/BT_MAX (macros; both arguments have one type in the code base); std::min<T>(a,b) -> BT_MIN_T(T,a,b) converts both to T first",
]

_CAST_RE = re.compile(r'\b(static_cast|reinterpret_cast|const_cast)\s*<')


def _rewrite_casts(text, fired):
    while True:
        m = _CAST_RE.search(text)
        if not m:
            return text
        lt = m.end() - 1
        gt = match_close_angle(text, lt)
        ty = text[lt + 1:gt].strip()
        k = gt + 1
        while text[k].isspace():
            k += 1
        if text[k] != '(':
            raise ExtractionError("cast without '(' near %r" % text[m.start():m.start() + 60])
        c = match_close(text, k, '(', ')')
        inner = text[k + 1:c]
        text = text[:m.start()] + '((' + ty + ')(' + inner + '))' + text[c + 1:]
        fired['cast'] = fired.get('cast', 0) + 1


def match_close_angle(text, i):
    assert text[i] == '<'
    depth = 0
    for j in range(i, len(text)):
        if text[j] == '<':
            depth += 1
        elif text[j] == '>':
            depth -= 1
            if depth == 0:
                return j
        elif text[j] in ';{}':
            break
    raise ExtractionError("unbalanced <> near %r" % text[i:i + 60])


_STD_TYPES = r'(u?int(?:_least|_fast)?(?:8|16|32|64)_t|size_t|ptrdiff_t|u?intptr_t|u?intmax_t)'


def generic_rewrite(text, fired, member_exclude=(), member_extra=(), no_members=False):
    def sub(name, pat, repl, t, flags=0):
        t2, n = re.subn(pat, repl, t, flags=flags)
        if n:
            fired[name] = fired.get(name, 0) + n
        return t2

    text = sub('std-int-types', r'\bstd\s*::\s*' + _STD_TYPES + r'\b', r'\1', text)
    text = sub('static_cast<void>', r'\bstatic_cast\s*<\s*void\s*>\s*\(\s*(\w+)\s*\)\s*;', r'(void)\1;', text)
    text = _rewrite_casts(text, fired)
    text = sub('nullptr', r'\bnullptr\b', '0', text)
    text = sub('and', r'\band\b', '&&', text)
    text = sub('or', r'\bor\b', '||', text)
    text = sub('not', r'\bnot\b', '!', text)
    text = sub('auto const', r'\bauto\s+const\b(?!\s*&)', '__auto_type', text)
    text = sub('auto', r'\b(?:const\s+)?auto\b(?!\s*&)', '__auto_type', text)
    text = sub('static_assert', r'\bstatic_assert\s*\(', 'BT_STATIC_ASSERT(', text)
    text = sub('assert', r'(?<![\w])assert\s*\(', 'BT_ASSERT(', text)
    text = sub('static-constexpr', r'\bstatic\s+constexpr\b', 'const', text)
    text = sub('constexpr', r'\bconstexpr\b', 'const', text)
    text = sub('std::min<T>', r'\bstd\s*::\s*min\s*<\s*([^<>;(){}]*?)\s*>\s*\(', r'BT_MIN_T(\1, ', text)
    text = sub('std::max<T>', r'\bstd\s*::\s*max\s*<\s*([^<>;(){}]*?)\s*>\s*\(', r'BT_MAX_T(\1, ', text)
    text = sub('std::min', r'\bstd\s*::\s*min\s*\(', 'BT_MIN(', text)
    text = sub('std::max', r'\bstd\s*::\s*max\s*\(', 'BT_MAX(', text)
    text = sub('this->', r'\bthis\s*->\s*', 'self->', text)
    if not no_members:
        excl = set(member_exclude)

        def mem(m):
            name = m.group(1)
            if name in excl:
                return m.group(0)
            fired['member:' + name] = fired.get('member:' + name, 0) + 1
            return 'self->' + name

        text = re.sub(r'(?<![\w.])(?<!->)(?<!:)([A-Za-z][A-Za-z0-9_]*_)\b(?!\s*::)', mem, text)
        for name in member_extra:
            def mem2(m, name=name):
                fired['member:' + name] = fired.get('member:' + name, 0) + 1
                return 'self->' + name
            text = re.sub(r'(?<![\w.])(?<!->)(?<!:)\b' + re.escape(name) + r'\b', mem2, text)
    return text


# ----------------------------------------------------------------------------
# loop contract splicing
# ----------------------------------------------------------------------------
_LOOP_RE = re.compile(r'\b(for|while)\s*\(')


def loop_headers(text):
    """[(kind, start_of_keyword, index where the loop contract goes, header text)], in source order.
    for/while: the contract follows the closing paren of the header.  do { } while ( c ); : CBMC wants the contract
    right after 'do'; the trailing 'while ( c )' belongs to the do statement and is not a loop header of its own;
    the header text matched against the spec regex is 'do while ( c )'."""
    res = []
    tails = set()
    for m in re.finditer(r'\bdo\b', text):
        k = m.end()
        while k < len(text) and text[k].isspace():
            k += 1
        if k >= len(text) or text[k] != '{':
            raise ExtractionError("do statement without a braced body near %r" % text[m.start():m.start() + 40])
        c = match_close(text, k, '{', '}')
        t = re.match(r'\s*while\s*\(', text[c + 1:])
        if not t:
            raise ExtractionError("do statement without trailing while near %r" % text[m.start():m.start() + 40])
        ws = c + 1 + t.end() - 1
        wc = match_close(text, ws, '(', ')')
        tails.add(c + 1 + t.start() + len(t.group(0)) - len(t.group(0).lstrip()))
        res.append(('do', m.start(), m.end(), 'do ' + text[c + 1:wc + 1].strip()))
    for m in _LOOP_RE.finditer(text):
        if m.start() in tails:
            continue
        op = m.end() - 1
        cl = match_close(text, op, '(', ')')
        res.append((m.group(1), m.start(), cl + 1, text[m.start():cl + 1]))
    res.sort(key=lambda t: t[1])
    return res


def splice_loops(text, loops, what):
    hs = loop_headers(text)
    if len(hs) != len(loops):
        raise ExtractionError("%s: %d loop header(s) in the extracted body, %d loop contract(s) in the spec"
                              % (what, len(hs), len(loops)))
    out = text
    for (kind, s, e, hdr), lp in sorted(zip(hs, loops), key=lambda t: -t[0][2]):
        if not re.search(lp['header'], hdr, re.S):
            raise ExtractionError("%s: loop header %r does not match spec regex %r" % (what, hdr, lp['header']))
        out = out[:e] + '\n' + lp['contract'].strip() + '\n' + out[e:]
    return out


# ----------------------------------------------------------------------------
# extraction proper
# ----------------------------------------------------------------------------
def apply_unit_rules(text, rules, what, fired):
    for r in rules or []:
        pat, repl = r[0], r[1]
        need = r[2] if len(r) > 2 else '+'
        text2, n = re.subn(pat, repl, text, flags=re.S)
        ok = (need == '*') or (need == '+' and n >= 1) or (isinstance(need, int) and n == need)
        if not ok:
            raise ExtractionError("%s: unit rule %r fired %d time(s), declared %r" % (what, pat, n, need))
        fired['unit:' + pat] = n
        text = text2
    return text


LEFTOVER = [
    (r'::', "'::' left over"),
    (r'\btemplate\b', "'template' left over"),
    (r'\btypename\b', "'typename' left over"),
    (r'\b(?:static|reinterpret|const|dynamic)_cast\b', "C++ cast left over"),
    (r'\bauto\b', "'auto' left over"),
    (r'\bnew\b|\bdelete\b|\bthrow\b|\btry\b|\bcatch\b', "C++ keyword left over"),
    (r'\[\s*[&=]?\s*\]\s*\(', "lambda left over"),
]


def extract_body(spec):
    """spec keys: file, locate, scope (optional), pre (unit rules before the generic ones),
    rules (unit rules after), loops, loops_optional, member_exclude, member_extra, no_members, body='function'|'expr'
    Returns dict(text=<C text of the body including braces>, report={...})"""
    what = spec.get('id', spec['locate'])
    raw, txt = load(spec['file'])
    lo, hi = scope_range(txt, spec.get('scope'), what)
    s, e = find_once(spec['locate'], txt, what, lo, hi)
    kind = spec.get('body', 'function')
    if kind == 'function':
        b = txt.find('{', e, hi)
        if b < 0:
            raise ExtractionError("%s: no body" % what)
        between = txt[e:b]
        if ';' in between:
            raise ExtractionError("%s: locate matches a declaration (';' before '{')" % what)
        if spec.get('init_list') is None and re.search(r'\)\s*:(?!:)', txt[s:b]) and not spec.get('allow_init_list'):
            # constructor initialiser list: must be handled explicitly
            raise ExtractionError("%s: constructor initialiser list present; spec must set init_list" % what)
        c = match_close(txt, b, '{', '}')
        body = txt[b:c + 1]
        span = (line_of(txt, s), line_of(txt, c))
        if spec.get('init_list'):
            # turn ': a_( x ), b_( y )' into assignments placed at the top of the body
            il = txt[e:b]
            k = il.find(':')
            items = split_top(il[k + 1:], ',')
            assigns = []
            skips = list(spec.get('init_skip', []))
            skipped = set()
            for it in items:
                it = it.strip()
                hit = [sk for sk in skips if re.search(sk, it)]
                if hit:
                    skipped.update(hit)
                    continue
                m = re.match(r'^(\w+)\s*[\({](.*)[\)}]$', it, re.S)
                if not m:
                    raise ExtractionError("%s: cannot parse initialiser %r" % (what, it))
                assigns.append("%s = %s;" % (m.group(1), m.group(2).strip() or '0'))
            if skipped != set(skips):
                raise ExtractionError("%s: init_skip pattern(s) %r matched no base/member initialiser" % (what, sorted(set(skips) - skipped)))
            body = '{ ' + ' '.join(assigns) + ' ' + body[1:]
    elif kind == 'expr':
        # initialiser expression: text after the match up to the terminating ';'
        j = txt.find(';', e, hi)
        if j < 0:
            raise ExtractionError("%s: no ';' after initialiser" % what)
        body = txt[e:j]
        span = (line_of(txt, s), line_of(txt, j))
    elif kind == 'text':
        # the match itself
        body = txt[s:e]
        span = (line_of(txt, s), line_of(txt, e))
    else:
        raise ExtractionError("unknown body kind %r" % kind)

    sha = hashlib.sha256(body.encode()).hexdigest()
    fired = {}
    text = apply_unit_rules(body, spec.get('pre'), what, fired)
    text = generic_rewrite(text, fired,
                           member_exclude=spec.get('member_exclude', ()),
                           member_extra=spec.get('member_extra', ()),
                           no_members=spec.get('no_members', False))
    text = apply_unit_rules(text, spec.get('rules'), what, fired)
    loops = spec.get('loops', [])
    if spec.get('loops_optional') and not loop_headers(text):
        # the spec allows a loop-free implementation of this function: nothing to splice
        loops = []
    if 'loops' in spec or kind == 'function':
        text = splice_loops(text, loops, what)
    for pat, msg in LEFTOVER:
        m = re.search(pat, text)
        if m:
            ln = text.count('\n', 0, m.start())
            raise ExtractionError("%s: %s: %r" % (what, msg, text.split('\n')[ln].strip()))
    return dict(text=text, report=dict(id=what, file=spec['file'], lines=list(span), sha256=sha,
                                       rules_fired=fired, n_loops=len(loops)))


def split_top(s, sep):
    parts, depth, cur = [], 0, []
    for ch in s:
        if ch in '([{<':
            depth += 1
        elif ch in ')]}>':
            depth -= 1
        if ch == sep and depth == 0:
            parts.append(''.join(cur))
            cur = []
        else:
            cur.append(ch)
    if ''.join(cur).strip():
        parts.append(''.join(cur))
    return parts


def extract_fields(spec):
    """spec keys: file, scope, names=[member names]; returns C declarations 'type name[dim];' for each.
    type_map: optional dict of C++ type text -> C type text (unit rule; must fire)."""
    what = spec.get('id', 'fields')
    raw, txt = load(spec['file'])
    lo, hi = scope_range(txt, spec.get('scope'), what)
    body = txt[lo:hi]
    out = []
    fired = {}
    for name in spec['names']:
        pat = r'(?:^|[;{}:])\s*((?:[\w:]|<[^;{}]*?>|\s|\*)+?)\s*\b' + re.escape(name) + r'\s*((?:\[[^\]]*\])*)\s*(?:=\s*[^;]+)?;'
        ms = [m for m in re.finditer(pat, body, re.S) if not re.search(r'\b(return|using|typedef|static)\b', m.group(1))]
        # only depth-0 occurrences (not inside nested class bodies / functions)
        ms = [m for m in ms if _depth(body, m.start(1)) == 0]
        if len(ms) != 1:
            raise ExtractionError("%s: member %s found %d times" % (what, name, len(ms)))
        ty = ' '.join(ms[0].group(1).split())
        ty = re.sub(r'^(public|private|protected)\s*:\s*', '', ty)
        ty = re.sub(r'\bmutable\b|\bvolatile\b', '', ty).strip()
        dim = ms[0].group(2)
        tm = spec.get('type_map', {})
        if ty in tm:
            fired['type:' + ty] = 1
            ty = tm[ty]
        decl = "%s %s%s;" % (ty, name, dim)
        decl = generic_rewrite(decl, fired, no_members=True)
        decl = apply_unit_rules(decl, spec.get('rules'), what + '.' + name, fired) if spec.get('rules') else decl
        for p, msg in LEFTOVER:
            if re.search(p, decl):
                raise ExtractionError("%s: %s in member declaration %r" % (what, msg, decl))
        out.append(decl)
    text = '\n    '.join(out)
    return dict(text=text, report=dict(id=what, file=spec['file'], fields=out, rules_fired=fired,
                                       sha256=hashlib.sha256(text.encode()).hexdigest()))


def _depth(body, off):
    d = 0
    for ch in body[:off]:
        if ch == '{':
            d += 1
        elif ch == '}':
            d -= 1
    return d


def extract_enum(spec):
    """enum [class] NAME [: type] { a = 1, b, ... }  ->  enum NAME { NAME_a = 1, NAME_b, ... }
    (scoped enumerators get the enum's name as prefix; uses in bodies are rewritten by the unit rule
    'NAME::x -> NAME_x').  spec: file, scope (optional), name"""
    what = spec.get('id', spec['name'])
    raw, txt = load(spec['file'])
    lo, hi = scope_range(txt, spec.get('scope'), what)
    s, e = find_once(r'\benum\s+(?:class\s+)?' + re.escape(spec['name']) + r'\b[^{;]*\{', txt, what, lo, hi)
    c = match_close(txt, e - 1, '{', '}')
    inner = txt[e:c]
    items = [it.strip() for it in split_top(inner, ',') if it.strip()]
    out = []
    fired = {}
    oname = spec.get('rename', spec['name'])   # C has one namespace for enumerators: a second enum of the same name gets another prefix
    for it in items:
        m = re.match(r'^(\w+)\s*(?:=\s*(.+))?$', it, re.S)
        if not m:
            raise ExtractionError("%s: cannot parse enumerator %r" % (what, it))
        val = m.group(2)
        if val is not None:
            val = generic_rewrite(val.strip(), fired, no_members=True)
            # references to earlier enumerators of the same enum
            names = [x.split(' ')[0] for x in out]
            val = re.sub(r'\b(\w+)\b', lambda mm: oname + '_' + mm.group(1) if (oname + '_' + mm.group(1)) in names else mm.group(1), val)
            out.append("%s_%s = %s" % (oname, m.group(1), val))
        else:
            out.append("%s_%s" % (oname, m.group(1)))
    text = "enum %s { %s }" % (oname, ', '.join(out))
    for pat, msg in LEFTOVER:
        if re.search(pat, text):
            raise ExtractionError("%s: %s in enum" % (what, msg))
    return dict(text=text, report=dict(id=what, file=spec['file'], lines=[line_of(txt, s), line_of(txt, c)],
                                       sha256=hashlib.sha256(txt[s:c].encode()).hexdigest(), rules_fired=fired))


def extract_constant(spec):
    """static constexpr T name = <expr>;  -> the expression text (C-rewritten)."""
    sp = dict(spec)
    sp['body'] = 'expr'
    sp.setdefault('no_members', True)
    return extract_body(sp)


if __name__ == '__main__':
    import sys, json
    spec = json.loads(sys.argv[1])
    r = extract_body(spec)
    print(r['text'])
    print(json.dumps(r['report'], indent=1), file=sys.stderr)
