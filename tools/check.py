#!/usr/bin/env python3
"""
Driver: contract-based deductive verification of bluetoe functions with CBMC (DESIGN.md 3).

  check.py check <ID> [--tier quick|thorough] [--unit NAME] [--keep]
  check.py replay <replay.json>
  check.py list

exit 0  every obligation of every function under contract discharged (KNOWN-FINDING lines allowed)
exit 1  VIOLATION property=<ID> replay=<path> [no-failing-input-found]
exit 2  undecided: extraction broke, tool error, timeout, vacuous precondition, missing obligation class
"""
import argparse
import concurrent.futures as cf
import hashlib
import importlib.util
import json
import os
import re
import resource
import shutil
import subprocess
import sys
import time

HERE = os.path.dirname(os.path.abspath(__file__))
VERIF = os.path.dirname(HERE)
sys.path.insert(0, HERE)
import extract as X  # noqa: E402

REPO = X.REPO
BUILD = os.environ.get('VERIF_BUILD', os.path.join(VERIF, 'build'))
INCLUDE = os.path.join(VERIF, 'contracts', 'include')

CHECK_FLAGS = ['--bounds-check', '--pointer-check', '--pointer-overflow-check', '--signed-overflow-check',
               '--unsigned-overflow-check', '--conversion-check', '--div-by-zero-check',
               '--undefined-shift-check', '--unwinding-assertions']
# flags that are off unless a unit asks for them: bluetoe relies on modular unsigned arithmetic and
# implicit narrowing in many places; both are defined behaviour in C/C++
DEFAULT_OFF = ['--unsigned-overflow-check', '--conversion-check']

MEM_KB = 12 * 1024 * 1024
# SAT back end: cbmc's built-in CaDiCaL (several of the pointer-heavy jobs are 10x faster than with the default MiniSat2)
DEFAULT_SAT = 'cadical'


class Undecided(Exception):
    pass


def load_spec(pid):
    path = os.path.join(VERIF, 'contracts', pid + '.py')
    if not os.path.exists(path):
        raise Undecided("no spec for %s" % pid)
    sp = importlib.util.spec_from_file_location('spec_' + pid, path)
    mod = importlib.util.module_from_spec(sp)
    sp.loader.exec_module(mod)
    return mod


def load_known():
    p = os.path.join(VERIF, 'known_findings.json')
    if not os.path.exists(p):
        return []
    return json.load(open(p))['findings']


def _limits():
    resource.setrlimit(resource.RLIMIT_AS, (MEM_KB * 1024, MEM_KB * 1024))


def run(cmd, timeout, cwd=None, out=None):
    t0 = time.time()
    try:
        if out:
            with open(out, 'wb') as f:
                p = subprocess.run(cmd, cwd=cwd, stdout=f, stderr=subprocess.PIPE, timeout=timeout, preexec_fn=_limits)
            return p.returncode, '', p.stderr.decode(errors='replace'), time.time() - t0
        p = subprocess.run(cmd, cwd=cwd, stdout=subprocess.PIPE, stderr=subprocess.PIPE, timeout=timeout,
                           preexec_fn=_limits)
        return p.returncode, p.stdout.decode(errors='replace'), p.stderr.decode(errors='replace'), time.time() - t0
    except subprocess.TimeoutExpired:
        raise Undecided("timeout after %ds: %s" % (timeout, ' '.join(cmd[:3])))


# ----------------------------------------------------------------------------
# translation unit assembly
# ----------------------------------------------------------------------------
def assemble(unit, outdir):
    reports = []
    code = unit['code']
    cfile = os.path.join(outdir, unit['name'] + '.c')
    pieces = {}
    nloops = 0
    for ph, sp in unit.get('extracts', {}).items():
        sp = dict(sp)
        sp.setdefault('id', ph)
        kind = sp.get('kind', 'function')
        if kind == 'fields':
            r = X.extract_fields(sp)
        elif kind == 'expr':
            r = X.extract_constant(sp)
        elif kind == 'enum':
            r = X.extract_enum(sp)
        else:
            # keep loop contracts on one line so that #line mapping stays exact
            if 'loops' in sp:
                sp['loops'] = [dict(header=l['header'], contract=' '.join(l['contract'].split())) for l in sp['loops']]
            r = X.extract_body(sp)
            nloops += r['report'].get('n_loops', 0)
        pieces[ph] = r
        reports.append(r['report'])
    # substitute sequentially, with #line directives for function bodies
    out = []
    pos = 0
    used = set()
    for m in re.finditer(r'\{\{(\w+)\}\}', code):
        out.append(code[pos:m.start()])
        ph = m.group(1)
        if ph not in pieces:
            raise Undecided("unit %s: placeholder {{%s}} has no extract" % (unit['name'], ph))
        used.add(ph)
        r = pieces[ph]
        if 'lines' in r['report'] and unit['extracts'][ph].get('kind', 'function') == 'function':
            def cur():
                return ('#include\n' + ''.join(out)).count('\n') + 1
            out.append('\n#line %d "%s"\n' % (_body_first_line(r), os.path.join(REPO, r['report']['file'])))
            out.append(r['text'])
            out.append('\n')
            out.append('#line %d "%s"\n' % (cur() + 1, cfile))
        else:
            out.append(r['text'])
        pos = m.end()
    out.append(code[pos:])
    unused = set(pieces) - used
    if unused:
        raise Undecided("unit %s: extracts never used in the template: %s" % (unit['name'], sorted(unused)))
    text = '#include "bt_prelude.h"\n' + ''.join(out)
    with open(cfile, 'w') as f:
        f.write(text)
    return cfile, reports, nloops + unit.get('extra_loops', 0)


def _body_first_line(r):
    # report['lines'] = (line of signature match, line of closing brace); the body text starts at the
    # opening brace: closing line - number of newlines in the *original* body.  We recorded sha of the
    # original body only, so recompute from the text (rules never add or remove newlines).
    return r['report']['lines'][1] - r['text'].count('\n')


def _run_cbmc(name, ccmd, tmo, outj):
    rc, _, se, wall = run(ccmd, tmo, out=outj)
    if rc not in (0, 10):
        tail = open(outj, errors='replace').read()[-3000:]
        raise Undecided("unit %s: cbmc exit %d\n%s\n%s" % (name, rc, se[-2000:], tail))
    try:
        data = json.load(open(outj))
    except Exception as ex:
        raise Undecided("unit %s: cbmc output is not JSON (%s)" % (name, ex))
    results = None
    solver_s = 0.0
    msgs = []
    for e in data:
        if 'result' in e:
            results = e['result']
        mt = e.get('messageText')
        if mt:
            m = re.search(r'Runtime decision procedure: ([0-9.e+-]+)s', mt)
            if m:
                solver_s += float(m.group(1))
            if e.get('messageType') in ('ERROR',):
                msgs.append(mt)
            if 'ignoring' in mt:
                raise Undecided("unit %s: cbmc says %r (quantifier dropped?)" % (name, mt))
    if results is None:
        raise Undecided("unit %s: no result block in cbmc output; errors: %s" % (name, msgs[-3:]))
    return results, solver_s, wall


# ----------------------------------------------------------------------------
# one CBMC job
# ----------------------------------------------------------------------------
def cbmc_job(unit, cfile, outdir, tag, defines, tier, fn=None):
    name = unit['name'] + ('.' + fn if fn else '')
    entry = unit.get('entry') or ('h_' + fn)
    code = open(cfile).read()
    wits = sorted(set(re.findall(r'\bWIT\(\s*(\w+)\s*,', code)))
    defines = list(defines) + ['WIT_%s=%d' % (w, 1 if w == fn else 0) for w in wits]
    tmo = unit.get('timeout', 300 if tier == 'quick' else 1800)
    a = os.path.join(outdir, '%s.%s.a.gb' % (name, tag))
    b = os.path.join(outdir, '%s.%s.b.gb' % (name, tag))
    cmd = ['goto-cc', '--function', entry, '-I', INCLUDE, '-DBT_CBMC'] + ['-D' + d for d in defines + unit.get('defines', []) + unit.get(tier + '_defines', [])]
    if unit.get('arch32'):
        cmd.append('-m32')
    cmd += [cfile, '-o', a]
    rc, so, se, _ = run(cmd, 120)
    if rc != 0:
        raise Undecided("unit %s: goto-cc failed (extraction produced text that is not C):\n%s" % (name, (so + se)[-3000:]))
    replace = [g for g in unit.get('replace', []) if g != fn]
    while True:
        cmd = ['goto-instrument', '--dfcc', entry]
        if fn:
            cmd += ['--enforce-contract', fn]
        for g in replace:
            cmd += ['--replace-call-with-contract', g]
        if unit.get('loop_contracts', True):
            cmd.append('--apply-loop-contracts')
        cmd += [a, b]
        rc, so, se, _ = run(cmd, 300)
        if rc != 0:
            m = re.search(r"Function to replace '(\w+)' not found", so + se)
            if m and m.group(1) in replace:
                # the callee is not reachable from this harness: nothing to replace in this job
                replace.remove(m.group(1))
                continue
            raise Undecided("unit %s: goto-instrument failed:\n%s" % (name, (so + se)[-3000:]))
        break
    off = set(DEFAULT_OFF) - set(unit.get('flags_on', []))
    off |= set(unit.get('flags_off', []))
    flags = [f for f in CHECK_FLAGS if f not in off]
    sat = unit.get('sat_solver', os.environ.get('VERIF_SAT', DEFAULT_SAT))
    ccmd = ['cbmc', b, '--json-ui', '--trace', '--verbosity', '8'] + flags + unit.get('cbmc', []) + (['--sat-solver', sat] if sat != 'minisat2' else [])
    if tier == 'thorough' and unit.get('thorough_cbmc'):
        ccmd += unit['thorough_cbmc']
    if unit.get('unwind') is not None:
        ccmd += ['--unwind', str(unit['unwind'])]
    if unit.get('object_bits'):
        ccmd += ['--object-bits', str(unit['object_bits'])]
    if unit.get('arch32'):
        ccmd.append('--32')
    outj = os.path.join(outdir, '%s.%s.json' % (name, tag))
    results, solver_s, wall = _run_cbmc(name, ccmd, tmo, outj)
    ign = [re.compile(p) for p in unit.get('ignore', [])]
    if ign and any(r['status'] == 'FAILURE' and any(p.search(r.get('description', '')) for p in ign) for r in results):
        # an out-of-scope obligation failed: CBMC leaves everything behind it UNKNOWN.  Re-run with exactly the
        # in-scope properties selected, so that each of them is decided on its own.
        keep = [r['property'] for r in results if not any(p.search(r.get('description', '')) for p in ign)]
        ccmd = ccmd + sum([['--property', k] for k in keep], [])
        results, s2, w2 = _run_cbmc(name, ccmd, tmo, outj)
        solver_s += s2
        wall += w2
    return dict(results=results, solver_s=solver_s, wall=wall, cmd=' '.join(ccmd), fn=fn, name=name,
                instrument=' '.join(cmd), json=outj, flags_off=sorted(off))


def witnesses_from_trace(trace):
    """last value of every witness global W_*; element / member assignments (W_a[3l], W_s.f, W_s.a[1l]) are merged
    into the aggregate"""
    w = {}
    for st in trace or []:
        if st.get('stepType') != 'assignment':
            continue
        lhs = st.get('lhs', '')
        if not lhs.startswith('W_'):
            continue
        val = _val(st.get('value', {}))
        path = re.findall(r'\[(\d+)l?\]|\.(\w+)', lhs)
        base = re.match(r'W_\w+', lhs).group(0)
        if not path:
            w[base] = val
            continue
        cur = w.get(base)
        if cur is None:
            cur = w[base] = ([] if path[0][0] else {})
        for n, (idx, mem) in enumerate(path):
            last = n == len(path) - 1
            nxt = None if last else ([] if path[n + 1][0] else {})
            if idx:
                i = int(idx)
                if not isinstance(cur, list):
                    break
                while len(cur) <= i:
                    cur.append(0)
                if last:
                    cur[i] = val
                else:
                    if not isinstance(cur[i], (list, dict)):
                        cur[i] = nxt
                    cur = cur[i]
            else:
                if not isinstance(cur, dict):
                    break
                if last:
                    cur[mem] = val
                else:
                    if not isinstance(cur.get(mem), (list, dict)):
                        cur[mem] = nxt
                    cur = cur[mem]
    return w


def _val(v):
    if 'data' in v:
        d = v['data']
        d2 = re.sub(r'(?<=\d)[uUlL]+$', '', d)
        try:
            return int(d2, 0)
        except Exception:
            if d in ('TRUE', 'true'):
                return 1
            if d in ('FALSE', 'false'):
                return 0
            return d
    if 'elements' in v:
        return [_val(e.get('value', {})) for e in v['elements']]
    if 'members' in v:
        return {m['name']: _val(m.get('value', {})) for m in v['members']}
    return None


def classify(results, unit=None):
    """split CBMC properties into canaries, obligations; obligations a unit declares out of scope
    (regex on the description, each with a reason in the spec) are dropped and counted separately"""
    can, obl = [], []
    ign = [re.compile(p) for p in (unit or {}).get('ignore', [])]
    for r in results:
        if 'VACUITY_CANARY' in r.get('description', ''):
            can.append(r)
        elif any(p.search(r.get('description', '')) for p in ign):
            continue
        else:
            obl.append(r)
    return can, obl


def is_contract_obligation(r):
    return bool(re.search(r'\.(postcondition|precondition|loop_invariant_base|loop_invariant_step|loop_decreases|assigns|loop_assigns|assertion)\.', r['property']))


# ----------------------------------------------------------------------------
# unit = (extract, assemble, job A [, job B with the known finding classes excluded])
# ----------------------------------------------------------------------------
def _applies(k, fn):
    """a known finding names one function ('function'), several ('functions') or the whole unit"""
    if 'functions' in k:
        return fn in k['functions']
    return k.get('function', fn) == fn


def check_unit(pid, unit, tier, known):
    outdir = os.path.join(BUILD, pid)
    os.makedirs(outdir, exist_ok=True)
    cfile, reports, nloops = assemble(unit, outdir)
    fns = unit.get('enforce') or [None]
    res = dict(unit=unit['name'], extract=reports, jobs=[], known_lines=[], violations=[], nloops=nloops,
               obligations=0, discharged=0, contract_obligations=0, samples=[], excluded_classes=[])
    loop_steps = set()
    # one CBMC job per function under contract; the jobs of a unit are independent and run concurrently
    with cf.ThreadPoolExecutor(max_workers=int(os.environ.get('VERIF_FN_JOBS', '6'))) as fex:
        futA = {fn: fex.submit(cbmc_job, unit, cfile, outdir, 'A', [], tier, fn) for fn in fns}
        # job B (the same job with the witness classes of the open known findings excluded) does not depend on job A: start it alongside
        futB = {}
        for fn in fns:
            ops = [k for k in known if k['property'] == pid and k['unit'] == unit['name'] and k['status'] == 'open' and _applies(k, fn)]
            if ops:
                excl = ' && '.join('!(%s)' % k['witness_class'] for k in ops)
                futB[fn] = fex.submit(cbmc_job, unit, cfile, outdir, 'B', ['KNOWN_EXCLUDE=(%s)' % excl], tier, fn)
        jobsA, jobsB = {}, {}
        first_err = None
        for fn in fns:
            try:
                jobsA[fn] = futA[fn].result()
                if fn in futB:
                    jobsB[fn] = futB[fn].result()
            except (Undecided, X.ExtractionError) as e:
                first_err = first_err or e
        if first_err:
            raise first_err
    for fn in fns:
        opens = [k for k in known if k['property'] == pid and k['unit'] == unit['name'] and k['status'] == 'open'
                 and _applies(k, fn)]
        jobA = jobsA[fn]
        res['jobs'].append(jobA)
        canA, oblA = classify(jobA['results'], unit)
        _sanity(unit, jobA, canA, oblA, fn)
        failsA = [r for r in oblA if r['status'] == 'FAILURE']
        final = jobA
        if opens:
            matched = set()
            for r in failsA:
                key = r['property'] + ' ' + r.get('description', '')
                for k in opens:
                    if re.search(k['obligation'], key):
                        matched.add(k['id'])
            for k in opens:
                if k['id'] in matched:
                    res['known_lines'].append("KNOWN-FINDING: property=%s %s [%s, unit %s, class: %s]" %
                                              (pid, k['what'], k['id'], unit['name'], k['witness_class']))
                else:
                    res['known_lines'].append("note: known finding %s (property %s) did not fail in this run" % (k['id'], pid))
            jobB = jobsB[fn]
            res['jobs'].append(jobB)
            canB, oblB = classify(jobB['results'], unit)
            _sanity(unit, jobB, canB, oblB, fn)
            # failures of A that vanish under the exclusion belong to the known witness class; whatever still
            # fails with the class excluded is a different violation
            res['violations'] += [(r, jobB) for r in oblB if r['status'] == 'FAILURE']
            final = jobB
            res['excluded_classes'] += [k['id'] + ': ' + k['witness_class'] for k in opens]
        else:
            res['violations'] += [(r, jobA) for r in failsA]
        can, obl = classify(final['results'], unit)
        res['obligations'] += len(obl)
        res['discharged'] += sum(1 for r in obl if r['status'] == 'SUCCESS')
        res['contract_obligations'] += sum(1 for r in obl if is_contract_obligation(r))
        for r in obl:
            if re.match(r'.+\.loop_invariant_step\.\d+$', r['property']):
                loop_steps.add(re.sub(r'^.*for loop ', '', r.get('description', '')))
        res['samples'] += [dict(id=r['property'], what=r.get('description', ''), status=r['status'],
                                at="%s:%s" % (r.get('sourceLocation', {}).get('file', '?'),
                                              r.get('sourceLocation', {}).get('line', '?')))
                           for r in obl if re.search(r'\.(postcondition|loop_invariant_step)\.', r['property'])][:3]
    if len(loop_steps) < nloops:
        raise Undecided("unit %s: %d loop contract(s) in the spec but loop_invariant_step obligations for only %d loop(s) "
                        "(a loop contract was silently dropped)" % (unit['name'], nloops, len(loop_steps)))
    return res


def _sanity(unit, job, can, obl, fn):
    name = job['name']
    if not obl:
        raise Undecided("unit %s: zero obligations generated" % name)
    if not can:
        raise Undecided("unit %s: harness has no VACUITY_CANARY" % name)
    for r in obl:
        if 'undefined function should be unreachable' in r.get('description', '') and r['status'] != 'SUCCESS':
            raise Undecided("unit %s: body-less function %s is called but not replaced by its contract" % (name, r['property'].split('.')[0]))
    for c in can:
        if c['status'] != 'FAILURE':
            raise Undecided("unit %s: vacuity canary %s is not reachable (contradictory precondition or "
                            "non-terminating path): status %s" % (name, c['property'], c['status']))
    if fn and not unit.get('no_ensures'):
        if not any(r['property'].startswith(fn + '.postcondition') for r in obl):
            raise Undecided("unit %s: no ensures obligation generated for %s" % (name, fn))
    nfail = sum(1 for r in obl if r['status'] == 'FAILURE')
    for r in obl:
        # CBMC reports UNKNOWN for properties it did not decide because another property on the way failed;
        # with no failure at all an undecided property is an error of the run
        if r['status'] not in ('SUCCESS', 'FAILURE') and not nfail:
            raise Undecided("unit %s: obligation %s has status %s" % (name, r['property'], r['status']))


# ----------------------------------------------------------------------------
# replay
# ----------------------------------------------------------------------------
def build_replay(pid, unit):
    rp = unit.get('replay')
    if not rp:
        return None
    outdir = os.path.join(BUILD, pid)
    os.makedirs(outdir, exist_ok=True)
    src = os.path.join(VERIF, rp['src'])
    exe = os.path.join(outdir, 'replay_' + os.path.splitext(os.path.basename(src))[0])
    inc = ['-I' + os.path.join(REPO, p) for p in (
        '', 'bluetoe', 'bluetoe/utility/include', 'bluetoe/link_layer/include', 'bluetoe/sm/include',
        'bluetoe/bindings', 'bluetoe/bindings/nordic/include', 'bluetoe/services')]
    inc += ['-I' + os.path.join(REPO, p) for p in rp.get('repo_includes', [])]
    inc += ['-I' + os.path.join(VERIF, 'replay')]
    objs = []
    for cs in rp.get('c_sources', []):
        o = os.path.join(outdir, os.path.basename(cs) + '.o')
        rc, so, se, _ = run(['gcc', '-O1', '-w'] + rp.get('cflags', []) + ['-c', os.path.join(REPO, cs), '-o', o] + inc, 600)
        if rc != 0:
            return ('build-failed', (so + se)[-3000:])
        objs.append(o)
    cmd = ['g++', '-std=c++17', '-O1', '-g', '-fno-access-control', '-DBLUETOE_VERIF', '-w'] + rp.get('cxxflags', []) + inc + \
          [src] + [os.path.join(REPO, s) for s in rp.get('repo_sources', [])] + objs + ['-o', exe]
    rc, so, se, _ = run(cmd, 600)
    if rc != 0:
        return ('build-failed', (so + se)[-3000:])
    return ('ok', exe)


def run_replay(exe, unit_name, w):
    args = [exe, 'unit=' + unit_name]
    def flat(k, v):
        if isinstance(v, list) and all(isinstance(x, int) for x in v):
            args.append('%s=%s' % (k, ','.join(str(x) for x in v)))
        elif isinstance(v, list):
            for i, x in enumerate(v):
                flat('%s.%d' % (k, i), x)
        elif isinstance(v, dict):
            for kk, x in v.items():
                flat('%s.%s' % (k, kk), x)
        elif isinstance(v, int):
            args.append('%s=%d' % (k, v))
    for k, v in sorted(w.items()):
        flat(k, v)
    try:
        p = subprocess.run(args, stdout=subprocess.PIPE, stderr=subprocess.STDOUT, timeout=120)
        return p.returncode, p.stdout.decode(errors='replace')[-4000:]
    except subprocess.TimeoutExpired:
        return 98, 'replay timeout'


def report_violation(pid, unit, r, job, idx):
    outdir = os.path.join(BUILD, pid)
    w = witnesses_from_trace(r.get('trace'))
    loc = r.get('sourceLocation', {})
    rec = dict(property=pid, unit=unit['name'], job=job['name'], function=job.get('fn') or unit.get('entry'),
               obligation=r['property'], description=r.get('description', ''),
               repo_location="%s:%s" % (loc.get('file', '?'), loc.get('line', '?')),
               witnesses=w, cbmc_cmd=job['cmd'], cbmc_json=job['json'],
               cbmc_trace_tail=_trace_tail(r.get('trace')))
    path = os.path.join(outdir, 'replay_%s_%d.json' % (job['name'], idx))
    suffix = ' no-failing-input-found'
    rb = build_replay(pid, unit)
    if rb is None:
        rec['replay'] = 'no native replay driver for this unit'
    elif rb[0] != 'ok':
        rec['replay'] = 'replay driver failed to build: ' + rb[1]
    else:
        # a unit without witness globals still has a driver that sweeps its own menu of real configurations
        rc, out = run_replay(rb[1], job['name'], w or {})
        rec['replay'] = dict(exit=rc, output=out)
        if rc == 1:
            suffix = ''
            rec['reproduced_on_real_code'] = True
    with open(path, 'w') as f:
        json.dump(rec, f, indent=1, default=str)
    return "VIOLATION property=%s replay=%s%s" % (pid, path, suffix), rec


def _trace_tail(trace):
    out = []
    for st in (trace or [])[-400:]:
        if st.get('stepType') == 'assignment' and not st.get('hidden') and not str(st.get('lhs', '')).startswith('__CPROVER'):
            v = st.get('value', {})
            out.append("%s=%s @%s" % (st.get('lhs'), v.get('data', v.get('name')), st.get('sourceLocation', {}).get('line')))
    return out[-60:]


# ----------------------------------------------------------------------------
# property level
# ----------------------------------------------------------------------------
def check_property(pid, tier, only_unit=None, seed=0):
    t0 = time.time()
    X.clear_cache()
    mod = load_spec(pid)
    known = load_known()
    units = [u for u in mod.UNITS if (only_unit is None or u['name'] == only_unit)]
    if tier == 'quick':
        units = [u for u in units if not u.get('thorough_only')]
    if not units:
        raise Undecided("no units")
    outdir = os.path.join(BUILD, pid)
    if only_unit is None:
        shutil.rmtree(outdir, ignore_errors=True)
    os.makedirs(outdir, exist_ok=True)
    results, errors = [], []
    with cf.ThreadPoolExecutor(max_workers=int(os.environ.get('VERIF_JOBS', '8'))) as ex:
        futs = {ex.submit(check_unit, pid, u, tier, known): u for u in units}
        for fu in cf.as_completed(futs):
            u = futs[fu]
            try:
                results.append((u, fu.result()))
            except (Undecided, X.ExtractionError) as e:
                errors.append("%s: %s" % (u['name'], e))
    results.sort(key=lambda t: [x['name'] for x in units].index(t[0]['name']))
    lines, nviol = [], 0
    for u, r in results:
        for kl in r['known_lines']:
            if kl not in lines:      # one line per finding, however many functions of the unit it names
                lines.append(kl)
        for i, (fr, job) in enumerate(r['violations']):
            ln, rec = report_violation(pid, u, fr, job, i)
            lines.append("  failed obligation %s (%s) in unit %s at %s" % (fr['property'], fr.get('description', ''), u['name'], rec['repo_location']))
            lines.append(ln)
            nviol += 1
    wall = time.time() - t0
    if only_unit is None and REPO == '/repo':
        write_evidence(pid, mod, tier, seed, results, errors, nviol, wall, known)
    for ln in lines:
        print(ln)
    tot_o = sum(r['obligations'] for _, r in results)
    tot_d = sum(r['discharged'] for _, r in results)
    print("%s [%s]: %d unit(s), %d obligations, %d discharged, %d violation(s), %d undecided unit(s), %.1fs" %
          (pid, tier, len(results), tot_o, tot_d, nviol, len(errors), wall))
    for e in errors:
        print("UNDECIDED " + e, file=sys.stderr)
    if nviol:
        return 1
    if errors:
        return 2
    return 0


def write_evidence(pid, mod, tier, seed, results, errors, nviol, wall, known):
    meta = getattr(mod, 'META', {})
    tot_o = sum(r['obligations'] for _, r in results)
    tot_d = sum(r['discharged'] for _, r in results)
    fucs, trusted, samples, bounded = [], [], [], []
    solver_s = 0.0
    cmds = []
    for u, r in results:
        job = r['jobs'][-1]
        solver_s += sum(j['solver_s'] for j in r['jobs'])
        fucs.append(dict(unit=u['name'], functions=u.get('enforce', []), replaced_by_contract=u.get('replace', []),
                         obligations=r['obligations'], discharged=r['discharged'],
                         contract_obligations=r['contract_obligations'],
                         backend=u.get('backend', 'cbmc 6.11 SAT (%s)' % u.get('sat_solver', os.environ.get('VERIF_SAT', DEFAULT_SAT))),
                         solver_s=round(sum(j['solver_s'] for j in r['jobs']), 3), wall_s=round(sum(j['wall'] for j in r['jobs']), 2),
                         loop_contracts=r['nloops'], checks_switched_off=job['flags_off'],
                         unwind=u.get('unwind'), ignored_obligation_classes=u.get('ignore', []),
                         extracted=[dict(id=e['id'], file=e['file'], lines=e.get('lines'), sha256=e['sha256'][:16],
                                         rules_fired=e['rules_fired']) for e in r['extract']],
                         excluded_known_classes=r.get('excluded_classes', [])))
        for t in u.get('trusted', []):
            if t not in trusted:
                trusted.append(t)
        if u.get('unwind') is not None:
            bounded.append("%s: --unwind %s with unwinding assertions (bounded stand-in, not counted as proof)" % (u['name'], u['unwind']))
        samples += [dict(unit=u['name'], **s) for s in r['samples'][:3]]
        cmds.append(job['instrument'] + ' && ' + job['cmd'])
    trusted = list(meta.get('trusted_base', [])) + trusted + [
        "CBMC 6.11.0 front end, goto-instrument DFCC contract instrumentation and SAT back end",
        "extractor rule set (tools/extract.py): " + '; '.join(X.GENERIC_RULES_DOC),
        "machine arithmetic is bit-precise LP64 (host); no mathematical integers are assumed",
    ]
    opens = [k for k in known if k['property'] == pid and k['status'] == 'open']
    level = meta.get('level', 'proof')
    if errors or tot_o == 0 or tot_d != tot_o:
        level = 'other'
    cov = dict(obligations=tot_o, discharged=tot_d,
               checker_cmd=cmds[0] if cmds else 'none',
               trusted_base=trusted,
               explanation=meta.get('explanation', '') + (" UNDECIDED units: " + '; '.join(errors) if errors else ''),
               functions_under_contract=fucs, samples=samples or [dict(note='no obligations')],
               solver_s=round(solver_s, 3), bounded_stand_ins=bounded,
               known_findings_open=[k['id'] + ': ' + k['what'] for k in opens],
               undecided_units=errors, exhaustive=False,
               all_checker_cmds=cmds)
    ev = dict(property_id=pid, tier=tier, seed=seed, level=level, coverage=cov,
              assumptions=list(meta.get('assumptions', [])) + bounded +
              ["known finding (excluded witness class, see known_findings.json): " + k['id'] for k in opens],
              wall_s=round(wall, 2), violations=nviol)
    os.makedirs(os.path.join(VERIF, 'evidence'), exist_ok=True)
    with open(os.path.join(VERIF, 'evidence', pid + '.json'), 'w') as f:
        json.dump(ev, f, indent=1)


def cmd_replay(path):
    rec = json.load(open(path))
    pid = rec['property']
    mod = load_spec(pid)
    unit = [u for u in mod.UNITS if u['name'] == rec['unit']]
    if not unit:
        print("unit %s no longer exists" % rec['unit'])
        return 2
    rb = build_replay(pid, unit[0])
    print("property %s unit %s obligation %s (%s)" % (pid, rec['unit'], rec['obligation'], rec['description']))
    print("witnesses: %s" % json.dumps(rec['witnesses']))
    if rb is None:
        print("no native replay driver for this unit; the failed obligation and the verifier output are in the file")
        return 1
    if rb[0] != 'ok':
        print("replay build failed:\n" + rb[1])
        return 2
    rc, out = run_replay(rb[1], rec.get('job', rec['unit']), rec['witnesses'])
    print(out)
    print("replay exit %d (%s)" % (rc, 'violation reproduced on the real code' if rc == 1 else 'not reproduced'))
    return 1 if rc == 1 else 0


def main():
    ap = argparse.ArgumentParser()
    sub = ap.add_subparsers(dest='cmd')
    c = sub.add_parser('check')
    c.add_argument('pid')
    c.add_argument('--tier', default=os.environ.get('VERIF_TIER', 'quick'))
    c.add_argument('--unit')
    r = sub.add_parser('replay')
    r.add_argument('path')
    sub.add_parser('list')
    a = ap.parse_args()
    if a.cmd == 'check':
        seed = int(os.environ.get('VERIF_SEED', '0') or 0)
        try:
            sys.exit(check_property(a.pid, a.tier, a.unit, seed))
        except (Undecided, X.ExtractionError) as e:
            print("UNDECIDED %s: %s" % (a.pid, e), file=sys.stderr)
            sys.exit(2)
    elif a.cmd == 'replay':
        sys.exit(cmd_replay(a.path))
    else:
        for f in sorted(os.listdir(os.path.join(VERIF, 'contracts'))):
            if re.match(r'C\d+\.py$', f):
                print(f[:-3])


if __name__ == '__main__':
    main()
