#!/usr/bin/env python3
"""Regenerates /verif/MANIFEST.json from contracts/C*.py (META) and contracts/not_applicable.json."""
import importlib.util, json, os, re, sys
VERIF = os.path.dirname(os.path.dirname(os.path.abspath(__file__)))
props = [json.loads(l) for l in open(os.path.join(VERIF, 'properties.jsonl'))]
na = json.load(open(os.path.join(VERIF, 'contracts', 'not_applicable.json')))
checks, not_app = [], []
for p in props:
    pid = p['id']
    path = os.path.join(VERIF, 'contracts', pid + '.py')
    if os.path.exists(path) and pid not in na:
        sp = importlib.util.spec_from_file_location('s', path); m = importlib.util.module_from_spec(sp); sp.loader.exec_module(m)
        meta = m.META
        checks.append({
            "property_id": pid,
            "quick_cmd": "python3 tools/check.py check %s --tier quick" % pid,
            "thorough_cmd": "python3 tools/check.py check %s --tier thorough" % pid,
            "evidence_file": "/verif/evidence/%s.json" % pid,
            "replay_cmd_template": "python3 tools/check.py replay {path}",
            "engine": "cbmc-contracts",
            "level_claimed": {"category": meta.get('level', 'proof'), "text": meta['explanation'], "design_ref": "DESIGN.md section 5, " + pid},
            "level_note": "; ".join(meta.get('assumptions', []) + meta.get('trusted_base', [])) or "see evidence trusted_base",
            "technique": meta.get('technique', "contract-based deductive verification: CBMC 6.11 code contracts (goto-instrument --dfcc, loop contracts) on function bodies extracted mechanically from /repo on every run"),
        })
    else:
        not_app.append({"property_id": pid, "reason": na.get(pid, "no contract within reach has been built for this property yet (see DESIGN.md section 5/6)")})
man = {
    "version": 1,
    "setup_cmd": "python3 tools/setup.py",
    "hooks": {"guard": "BLUETOE_VERIF", "enable": "-DBLUETOE_VERIF when compiling the native replay drivers under /verif/replay (yield points in notification_queue.hpp); the extractor verifies the guard-OFF view of the source (tools/extract.py strip_guarded)",
              "baseline_off_cmd": "bash tools/baseline.sh", "source_commits": json.load(open(os.path.join(VERIF, "contracts", "hooks.json"))), "add_only": True},
    "engines": [{"name": "cbmc-contracts", "path": "tools/check.py", "serves_properties": [c['property_id'] for c in checks],
                 "kind_free_text": "mechanical C++->C extraction of the real function bodies (tools/extract.py) + CBMC code contracts enforced per function via goto-instrument --dfcc; native g++ replay of counterexamples against the real headers"}],
    "checks": checks,
    "notes": "exit 2 of a check = undecided (extraction broke, tool error, timeout, vacuous precondition); never a verdict. known_findings.json lists recorded and fixed findings.",
    "not_applicable": not_app,
}
json.dump(man, open(os.path.join(VERIF, 'MANIFEST.json'), 'w'), indent=1)
print("claimed:", [c['property_id'] for c in checks])
